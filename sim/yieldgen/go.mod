module verif/yieldgen

go 1.24
