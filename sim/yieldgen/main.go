// yieldgen: yield points at accesses to package-level variables of the stream
// packages, for overlay copies only (the tree is never modified).
//
//	yieldgen <repo root> <out dir> <dir> [<dir> ...]
//
// For every non-test Go file under the given directories (relative to the
// repository root) it finds the statements of function bodies that reference a
// *mutable-looking* package-level variable of one of those packages - a
// variable that is written somewhere in a function body (assigned, indexed or
// field-assigned, incremented, address taken, appended to), or declared without
// initialiser, or initialised with make / new / &T{} / a map, slice or array
// literal / a constructor call - and writes a copy of the file with
// `verifyieldrt.VerifYield("auto.global:<file>:<line>"); ` inserted in front of
// each such statement, on the same line (line numbers are preserved). Error
// values, basic literals and Arrow data type / schema prototypes are not
// considered mutable. It prints a JSON object {original path: overlay copy}.
//
// The C16 scheduler of streamsim parks a stream's goroutine at these points and
// lets the tape decide which stream continues, so that two instances can be
// interleaved between two accesses to state they wrongly share - without
// sync / atomic, which the textual pass of bin/check handles, there is no other
// syntactic handle on shared state.
package main

import (
	"encoding/json"
	"fmt"
	"go/ast"
	"go/parser"
	"go/token"
	"os"
	"path/filepath"
	"sort"
	"strings"
)

type pkgInfo struct {
	dir     string
	imp     string // import path
	files   map[string]*ast.File
	src     map[string][]byte
	vars    map[string]*ast.ValueSpec // top-level vars
	varIdx  map[string]int            // index of the name within its spec
	mutable map[string]bool
	types   map[string]bool // struct types declared in the package
	shared  map[string]bool // types of which a package-level variable holds an instance (singletons)
}

func modulePath(root string) string {
	b, err := os.ReadFile(filepath.Join(root, "go.mod"))
	if err != nil {
		return ""
	}
	for _, l := range strings.Split(string(b), "\n") {
		l = strings.TrimSpace(l)
		if strings.HasPrefix(l, "module ") {
			return strings.TrimSpace(strings.TrimPrefix(l, "module "))
		}
	}
	return ""
}

func rootIdent(e ast.Expr) (pkg string, name *ast.Ident) {
	for {
		switch x := e.(type) {
		case *ast.ParenExpr:
			e = x.X
		case *ast.IndexExpr:
			e = x.X
		case *ast.SliceExpr:
			e = x.X
		case *ast.StarExpr:
			e = x.X
		case *ast.SelectorExpr:
			// pkg.Var (qualified) or value.field
			if id, ok := x.X.(*ast.Ident); ok && id.Obj == nil {
				return id.Name, x.Sel // may be a qualified identifier; the caller decides
			}
			e = x.X
		case *ast.Ident:
			return "", x
		default:
			return "", nil
		}
	}
}

func immutableInit(e ast.Expr) bool {
	switch x := e.(type) {
	case *ast.BasicLit:
		return true
	case *ast.Ident:
		return x.Name == "true" || x.Name == "false" || x.Name == "nil"
	case *ast.UnaryExpr:
		if x.Op == token.AND {
			return false
		}
		return immutableInit(x.X)
	case *ast.BinaryExpr:
		return immutableInit(x.X) && immutableInit(x.Y)
	case *ast.SelectorExpr:
		// arrow.PrimitiveTypes.Uint16, arrow.FixedWidthTypes... : prototypes of another module
		return true
	case *ast.FuncLit:
		return true
	case *ast.CompositeLit:
		// a table or a value: mutable only if something writes to it (found separately) -
		// unless it holds pointers / constructed objects: singletons reachable through a table
		holds := false
		ast.Inspect(x, func(n ast.Node) bool {
			switch y := n.(type) {
			case *ast.UnaryExpr:
				if y.Op == token.AND {
					holds = true
				}
			case *ast.CallExpr:
				if !immutableInit(y) {
					holds = true
				}
			case *ast.FuncLit:
				return false
			}
			return !holds
		})
		return !holds
	case *ast.CallExpr:
		name := ""
		switch f := x.Fun.(type) {
		case *ast.Ident:
			name = f.Name
		case *ast.SelectorExpr:
			if id, ok := f.X.(*ast.Ident); ok {
				switch id.Name {
				case "errors", "fmt", "werror", "arrow", "regexp":
					return true
				}
			}
			name = f.Sel.Name
		}
		// make / new / a constructor: a singleton whose state may change behind its methods
		if name == "make" || name == "new" || strings.HasPrefix(name, "New") || strings.HasPrefix(name, "new") {
			return false
		}
		return true
	}
	return false
}

func main() {
	if len(os.Args) < 4 {
		fmt.Fprintln(os.Stderr, "usage: yieldgen <repo root> <out dir> <dir>...")
		os.Exit(3)
	}
	root, outDir := os.Args[1], os.Args[2]
	mod := modulePath(root)
	fset := token.NewFileSet()
	pkgs := map[string]*pkgInfo{} // by import path
	for _, d := range os.Args[3:] {
		filepath.Walk(filepath.Join(root, d), func(p string, fi os.FileInfo, err error) error {
			if err != nil || fi.IsDir() {
				return nil
			}
			name := fi.Name()
			if !strings.HasSuffix(name, ".go") || strings.HasSuffix(name, "_test.go") || strings.HasPrefix(name, "verif_") {
				return nil
			}
			src, err := os.ReadFile(p)
			if err != nil {
				return nil
			}
			f, err := parser.ParseFile(fset, p, src, parser.ParseComments)
			if err != nil {
				return nil // a tree that does not parse fails to build anyway
			}
			dir := filepath.Dir(p)
			rel, _ := filepath.Rel(root, dir)
			imp := mod + "/" + filepath.ToSlash(rel)
			pi := pkgs[imp]
			if pi == nil {
				pi = &pkgInfo{dir: dir, imp: imp, files: map[string]*ast.File{}, src: map[string][]byte{},
					vars: map[string]*ast.ValueSpec{}, varIdx: map[string]int{}, mutable: map[string]bool{},
					types: map[string]bool{}, shared: map[string]bool{}}
				pkgs[imp] = pi
			}
			pi.files[p] = f
			pi.src[p] = src
			return nil
		})
	}
	// top-level vars and their initialiser shape
	for _, pi := range pkgs {
		for _, f := range pi.files {
			for _, d := range f.Decls {
				gd, ok := d.(*ast.GenDecl)
				if !ok || gd.Tok != token.VAR {
					continue
				}
				for _, s := range gd.Specs {
					vs := s.(*ast.ValueSpec)
					for i, n := range vs.Names {
						if n.Name == "_" {
							continue
						}
						pi.vars[n.Name] = vs
						pi.varIdx[n.Name] = i
						switch {
						case len(vs.Values) == 0:
							// zero value: only there to be assigned later - unless it is an interface assertion helper
							pi.mutable[n.Name] = true
						case len(vs.Values) == len(vs.Names):
							if !immutableInit(vs.Values[i]) {
								pi.mutable[n.Name] = true
							}
						default:
							pi.mutable[n.Name] = true
						}
					}
				}
			}
		}
	}
	// writes anywhere in function bodies make a variable mutable whatever its initialiser
	importsOf := func(f *ast.File) map[string]*pkgInfo {
		m := map[string]*pkgInfo{}
		for _, is := range f.Imports {
			path := strings.Trim(is.Path.Value, "\"`")
			pi := pkgs[path]
			if pi == nil {
				continue
			}
			name := filepath.Base(path)
			// the package clause decides the default name
			for _, ff := range pi.files {
				name = ff.Name.Name
				break
			}
			if is.Name != nil {
				name = is.Name.Name
			}
			m[name] = pi
		}
		return m
	}
	isTopLevel := func(pi *pkgInfo, id *ast.Ident) bool {
		vs, ok := pi.vars[id.Name]
		if !ok {
			return false
		}
		if id.Obj == nil {
			return true // declared in another file of the package
		}
		return id.Obj.Decl == vs
	}
	markWrite := func(pi *pkgInfo, imps map[string]*pkgInfo, e ast.Expr) {
		q, id := rootIdent(e)
		if id == nil {
			return
		}
		if q != "" {
			if other := imps[q]; other != nil {
				if _, ok := other.vars[id.Name]; ok {
					other.mutable[id.Name] = true
				}
				return
			}
			// value.field where value is an unresolved identifier: a package-level var of another file
			if _, ok := pi.vars[q]; ok {
				pi.mutable[q] = true
			}
			return
		}
		if isTopLevel(pi, id) {
			pi.mutable[id.Name] = true
		}
	}
	for _, pi := range pkgs {
		for _, f := range pi.files {
			imps := importsOf(f)
			for _, d := range f.Decls {
				fd, ok := d.(*ast.FuncDecl)
				if !ok || fd.Body == nil {
					continue
				}
				ast.Inspect(fd.Body, func(n ast.Node) bool {
					switch x := n.(type) {
					case *ast.AssignStmt:
						if x.Tok != token.DEFINE {
							for _, l := range x.Lhs {
								markWrite(pi, imps, l)
							}
						}
					case *ast.IncDecStmt:
						markWrite(pi, imps, x.X)
					case *ast.UnaryExpr:
						if x.Op == token.AND {
							markWrite(pi, imps, x.X)
						}
					case *ast.RangeStmt:
						if x.Tok == token.ASSIGN {
							if x.Key != nil {
								markWrite(pi, imps, x.Key)
							}
							if x.Value != nil {
								markWrite(pi, imps, x.Value)
							}
						}
					}
					return true
				})
			}
		}
	}
	// singletons: types declared in a package of which a mutable package-level variable holds an
	// instance (directly, through a pointer, or inside a table); the statements of their methods
	// that use the receiver get yield points too, because the state of a singleton changes behind
	// its methods, without any reference to the variable
	for _, pi := range pkgs {
		for _, f := range pi.files {
			for _, d := range f.Decls {
				if gd, ok := d.(*ast.GenDecl); ok && gd.Tok == token.TYPE {
					for _, s := range gd.Specs {
						ts := s.(*ast.TypeSpec)
						if _, ok := ts.Type.(*ast.StructType); ok {
							pi.types[ts.Name.Name] = true
						}
					}
				}
			}
		}
		typeName := func(e ast.Expr) string {
			for {
				switch x := e.(type) {
				case *ast.StarExpr:
					e = x.X
				case *ast.ParenExpr:
					e = x.X
				case *ast.Ident:
					return x.Name
				default:
					return ""
				}
			}
		}
		for name, vs := range pi.vars {
			if !pi.mutable[name] {
				continue
			}
			if vs.Type != nil {
				if t := typeName(vs.Type); pi.types[t] {
					pi.shared[t] = true
				}
			}
			for _, v := range vs.Values {
				ast.Inspect(v, func(n ast.Node) bool {
					switch x := n.(type) {
					case *ast.FuncLit:
						return false
					case *ast.CompositeLit:
						if x.Type != nil {
							if t := typeName(x.Type); pi.types[t] {
								pi.shared[t] = true
							}
						}
					case *ast.CallExpr:
						if id, ok := x.Fun.(*ast.Ident); ok {
							if id.Name == "new" && len(x.Args) == 1 {
								if t := typeName(x.Args[0]); pi.types[t] {
									pi.shared[t] = true
								}
							}
							for _, pre := range []string{"New", "new"} {
								if t := strings.TrimPrefix(id.Name, pre); t != id.Name {
									if pi.types[t] {
										pi.shared[t] = true
									}
									if lt := strings.ToLower(t[:1]) + t[1:]; len(t) > 0 && pi.types[lt] {
										pi.shared[lt] = true
									}
								}
							}
						}
					}
					return true
				})
			}
		}
	}
	// insertion
	out := map[string]string{}
	type ins struct {
		off  int
		text string
	}
	paths := []string{}
	for _, pi := range pkgs {
		for p := range pi.files {
			paths = append(paths, p)
		}
	}
	sort.Strings(paths)
	fileOf := map[string]*pkgInfo{}
	for _, pi := range pkgs {
		for p := range pi.files {
			fileOf[p] = pi
		}
	}
	for _, p := range paths {
		pi := fileOf[p]
		f := pi.files[p]
		imps := importsOf(f)
		rel, _ := filepath.Rel(root, p)
		var inserts []ins
		var curRecv *ast.Object // receiver of the singleton method being visited, if any
		refs := func(n ast.Node) bool {
			found := false
			skip := map[*ast.Ident]bool{}
			ast.Inspect(n, func(m ast.Node) bool {
				if found || m == nil {
					return false
				}
				switch x := m.(type) {
				case *ast.FuncLit:
					return false // runs later, has its own statements
				case *ast.BlockStmt:
					if m != n {
						return false // nested statements get their own yield points
					}
				case *ast.CaseClause:
					for _, e := range x.List {
						ast.Inspect(e, func(k ast.Node) bool {
							if id, ok := k.(*ast.Ident); ok && pi.mutable[id.Name] && isTopLevel(pi, id) {
								found = true
							}
							return !found
						})
					}
					return false
				case *ast.CommClause:
					return false
				case *ast.KeyValueExpr:
					if id, ok := x.Key.(*ast.Ident); ok {
						skip[id] = true
					}
				case *ast.SelectorExpr:
					skip[x.Sel] = true
					if id, ok := x.X.(*ast.Ident); ok && id.Obj == nil {
						if other := imps[id.Name]; other != nil {
							if other.mutable[x.Sel.Name] {
								found = true
							}
							skip[id] = true
						}
					}
				case *ast.Ident:
					if !skip[x] && pi.mutable[x.Name] && isTopLevel(pi, x) {
						found = true
					}
					if !skip[x] && curRecv != nil && x.Obj == curRecv {
						found = true
					}
				}
				return !found
			})
			return found
		}
		var visitList func(list []ast.Stmt)
		var visitStmt func(s ast.Stmt)
		visitList = func(list []ast.Stmt) {
			for _, s := range list {
				switch s.(type) {
				case *ast.DeclStmt, *ast.EmptyStmt:
				default:
					// the header of a compound statement (and a simple statement as a whole)
					hdr := ast.Node(s)
					if refsHeader(s, refs) {
						line := fset.Position(s.Pos()).Line
						inserts = append(inserts, ins{fset.Position(s.Pos()).Offset,
							fmt.Sprintf("verifyieldrt.VerifYield(\"auto.global:%s:%d\"); ", filepath.ToSlash(rel), line)})
					}
					_ = hdr
				}
				visitStmt(s)
			}
		}
		visitStmt = func(s ast.Stmt) {
			switch x := s.(type) {
			case *ast.BlockStmt:
				visitList(x.List)
			case *ast.IfStmt:
				visitList(x.Body.List)
				if x.Else != nil {
					visitStmt(x.Else)
				}
			case *ast.ForStmt:
				visitList(x.Body.List)
			case *ast.RangeStmt:
				visitList(x.Body.List)
			case *ast.SwitchStmt:
				for _, c := range x.Body.List {
					visitList(c.(*ast.CaseClause).Body)
				}
			case *ast.TypeSwitchStmt:
				for _, c := range x.Body.List {
					visitList(c.(*ast.CaseClause).Body)
				}
			case *ast.SelectStmt:
				for _, c := range x.Body.List {
					visitList(c.(*ast.CommClause).Body)
				}
			case *ast.LabeledStmt:
				visitStmt(x.Stmt)
			}
			// function literals inside the statement
			ast.Inspect(s, func(n ast.Node) bool {
				if fl, ok := n.(*ast.FuncLit); ok {
					visitList(fl.Body.List)
					return false
				}
				switch n.(type) {
				case *ast.BlockStmt:
					return n == ast.Node(s) // nested blocks are visited through visitStmt
				}
				return true
			})
		}
		for _, d := range f.Decls {
			fd, ok := d.(*ast.FuncDecl)
			if !ok || fd.Body == nil || (fd.Recv == nil && fd.Name.Name == "init") {
				continue
			}
			curRecv = nil
			if fd.Recv != nil && len(fd.Recv.List) == 1 && len(fd.Recv.List[0].Names) == 1 {
				t := fd.Recv.List[0].Type
				if st, ok := t.(*ast.StarExpr); ok {
					t = st.X
				}
				if id, ok := t.(*ast.Ident); ok && pi.shared[id.Name] {
					curRecv = fd.Recv.List[0].Names[0].Obj
				}
			}
			visitList(fd.Body.List)
		}
		if len(inserts) == 0 {
			continue
		}
		sort.Slice(inserts, func(i, j int) bool { return inserts[i].off < inserts[j].off })
		src := pi.src[p]
		var b strings.Builder
		last := 0
		seen := map[int]bool{}
		for _, in := range inserts {
			if seen[in.off] {
				continue
			}
			seen[in.off] = true
			b.Write(src[last:in.off])
			b.WriteString(in.text)
			last = in.off
		}
		b.Write(src[last:])
		dest := filepath.Join(outDir, strings.ReplaceAll(filepath.ToSlash(rel), "/", "__")+".g.txt")
		os.MkdirAll(filepath.Dir(dest), 0o755)
		txt := b.String()
		if old, err := os.ReadFile(dest); err != nil || string(old) != txt {
			os.WriteFile(dest, []byte(txt), 0o644)
		}
		out[p] = dest
	}
	// report which variables were taken as mutable (for the evidence)
	type rep struct {
		Files   map[string]string   `json:"files"`
		Mutable map[string][]string `json:"mutable"`
		Shared  map[string][]string `json:"singleton_types"`
		Sites   int                 `json:"sites"`
	}
	r := rep{Files: out, Mutable: map[string][]string{}, Shared: map[string][]string{}}
	for imp, pi := range pkgs {
		for n := range pi.mutable {
			r.Mutable[imp] = append(r.Mutable[imp], n)
		}
		sort.Strings(r.Mutable[imp])
		for n := range pi.shared {
			r.Shared[imp] = append(r.Shared[imp], n)
		}
		sort.Strings(r.Shared[imp])
	}
	for _, dest := range out {
		b, _ := os.ReadFile(dest)
		r.Sites += strings.Count(string(b), "verifyieldrt.VerifYield(\"auto.global:")
	}
	json.NewEncoder(os.Stdout).Encode(r)
}

// refsHeader reports whether the part of s that executes before any nested
// block (the whole of a simple statement; init / condition / tag / range
// expression of a compound one) references a mutable package-level variable.
func refsHeader(s ast.Stmt, refs func(ast.Node) bool) bool {
	switch x := s.(type) {
	case *ast.BlockStmt:
		return false
	case *ast.IfStmt:
		return (x.Init != nil && refs(x.Init)) || refs(x.Cond)
	case *ast.ForStmt:
		return (x.Init != nil && refs(x.Init)) || (x.Cond != nil && refs(x.Cond)) || (x.Post != nil && refs(x.Post))
	case *ast.RangeStmt:
		return refs(x.X)
	case *ast.SwitchStmt:
		if (x.Init != nil && refs(x.Init)) || (x.Tag != nil && refs(x.Tag)) {
			return true
		}
		for _, c := range x.Body.List {
			for _, e := range c.(*ast.CaseClause).List {
				if refs(e) {
					return true
				}
			}
		}
		return false
	case *ast.TypeSwitchStmt:
		return (x.Init != nil && refs(x.Init)) || refs(x.Assign)
	case *ast.SelectStmt:
		return false
	case *ast.LabeledStmt:
		return refsHeader(x.Stmt, refs)
	case *ast.GoStmt, *ast.DeferStmt:
		return refs(s)
	default:
		return refs(s)
	}
}
