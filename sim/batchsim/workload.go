package batchsim

import (
	"fmt"
	"sort"
	"strings"
	"time"

	"verif/core"
)

// Knobs are the per-property swarm weights (percentages unless noted). Each
// property's check explores the same simulated system; the knobs only bias
// the search toward the behaviour the property is about.
type Knobs struct {
	Signals        []string
	EarlyReturnPct int
	MetadataPct    int // metadata_keys configured
	MaxConcPct     int // max_concurrency > 0
	StallingPct    int // stalling clock mode
	CancelPct      int // per request: cancellable context with a cancel task
	DeadlinePct    int // per request: context with a deadline
	SharedCtxPct   int // per request after the first of a caller: reuse the previous context
	FailPct        int // per export call
	LatencyPct     int // per export call: non-zero latency
	HonourCtxPct   int // per run: the downstream consumer honours ctx cancellation
	ShutdownMidPct int // per run: Shutdown may be called while callers are active
	MaxCallers     int
	MaxReqs        int
	SameStartPct   int // callers start at the same instant
	SmallSizes     bool
	NoMaxSizePct   int
}

func knobsFor(prop string) Knobs {
	k := Knobs{Signals: []string{"traces", "logs", "metrics"}, EarlyReturnPct: 20, MetadataPct: 30, MaxConcPct: 40,
		StallingPct: 30, CancelPct: 20, DeadlinePct: 10, SharedCtxPct: 25, FailPct: 20, LatencyPct: 50, HonourCtxPct: 40,
		ShutdownMidPct: 25, MaxCallers: 5, MaxReqs: 3, SameStartPct: 50, NoMaxSizePct: 35}
	switch prop {
	case "C05":
		k.FailPct = 10
	case "C06":
		k.EarlyReturnPct = 25
		k.FailPct = 35
		k.CancelPct = 25
		k.DeadlinePct = 15
		k.MetadataPct = 15
		k.StallingPct = 15
		k.SmallSizes = true
	case "C09":
		k.StallingPct = 0
		k.MaxConcPct = 15
		k.CancelPct = 5
		k.DeadlinePct = 5
		k.FailPct = 5
		k.MetadataPct = 20
		k.ShutdownMidPct = 10
	case "C10":
		k.MetadataPct = 100
		k.MaxCallers = 6
		k.SameStartPct = 80
		k.CancelPct = 8
		k.DeadlinePct = 4
		k.FailPct = 8
		k.LatencyPct = 25
		k.ShutdownMidPct = 10
	case "C11":
		k.MaxConcPct = 70
		k.ShutdownMidPct = 40
		k.LatencyPct = 70
		k.CancelPct = 25
	case "C18":
		k.EarlyReturnPct = 0
		k.CancelPct = 35
		k.DeadlinePct = 15
		k.HonourCtxPct = 75
		k.MetadataPct = 15
		k.SmallSizes = true
		k.MaxCallers = 4
		k.StallingPct = 10
		k.SharedCtxPct = 30
	}
	return k
}

// CfgPlan is the processor configuration of a run.
type CfgPlan struct {
	SendBatchSize    uint32        `json:"send_batch_size"`
	SendBatchMaxSize uint32        `json:"send_batch_max_size"`
	Timeout          time.Duration `json:"timeout_ns"`
	MetadataKeys     []string      `json:"metadata_keys,omitempty"`
	Limit            uint32        `json:"metadata_cardinality_limit"`
	MaxConcurrency   uint32        `json:"max_concurrency"`
	EarlyReturn      bool          `json:"early_return"`
}

// ReqPlan is one Consume call of a caller.
type ReqPlan struct {
	ID              int           `json:"id"`
	Caller          int           `json:"caller"`
	CtxKind         string        `json:"ctx"` // background | cancel | deadline | shared
	Deadline        time.Duration `json:"deadline_ns,omitempty"`
	CancelNotBefore int           `json:"cancel_not_before_steps,omitempty"`
	Combo           int           `json:"combo"`
	// Shape: per resource, per scope, (per metric,) the number of items.
	Shape  [][][]int `json:"shape"`
	NItems int       `json:"items"`
	VidLo  int       `json:"first_item_id"`
}

type CallerPlan struct {
	StartAt time.Duration `json:"start_at_ns"`
	Reqs    []*ReqPlan    `json:"requests"`
}

// ComboPlan is one set of client metadata a request may carry.
type ComboPlan struct {
	MD map[string][]string `json:"metadata"`
	// Key is the combination of values for the configured keys (the model's
	// notion of a tenant); requests with equal Key belong together.
	Key string `json:"combination"`
}

type Scenario struct {
	Property            string        `json:"property"`
	Signal              string        `json:"signal"`
	Cfg                 CfgPlan       `json:"config"`
	Clock               string        `json:"clock_mode"`
	Policy              string        `json:"scheduling_policy"`
	Unit                time.Duration `json:"time_unit_ns"`
	NumCPU              int           `json:"queue_capacity_numcpu"`
	HonourCtx           bool          `json:"downstream_honours_ctx"`
	DownstreamKeepsData bool          `json:"downstream_keeps_working_on_the_data_it_owns"`
	Combos              []ComboPlan   `json:"combos,omitempty"`
	Callers             []*CallerPlan `json:"callers"`
	ShutdownNotBefore   int           `json:"shutdown_not_before_step"` // -1: after all callers are done
	NReqs               int           `json:"n_requests"`
	NItems              int           `json:"n_items"`
	knobs               Knobs
}

var sizesAll = []uint32{0, 1, 2, 3, 5, 8, 13}
var sizesSmall = []uint32{0, 1, 2, 3, 4, 5}
var timeouts = []time.Duration{0, 10 * time.Millisecond, 200 * time.Millisecond, 5 * time.Second}

var extVals = [][]string{{"a,b"}, {"a", ""}, {"", "a"}, {"ab"}, {"a;b"}, {"a b"}, {"a, b"}, {"b,a"}, {"a", "b", ""}, {"a|b"}, {"[a b]"}, {"a", "a"}}

func pct(t *core.Tape, s core.Stream, p int) bool { return t.Chance(s, p, 100) }

// comboKey is the model's rendering of "one combination of values for the
// configured keys": per configured key (lower-cased, sorted) the ordered
// list of values; an absent key and an empty list are the same (no values).
func comboKey(keys []string, md map[string][]string) string {
	low := map[string][]string{}
	for k, v := range md {
		low[strings.ToLower(k)] = v
	}
	ks := make([]string, len(keys))
	for i, k := range keys {
		ks[i] = strings.ToLower(k)
	}
	sort.Strings(ks)
	var b strings.Builder
	for _, k := range ks {
		vs := low[k]
		fmt.Fprintf(&b, "%s=%d[", k, len(vs))
		for _, v := range vs {
			fmt.Fprintf(&b, "%q,", v)
		}
		b.WriteString("];")
	}
	return b.String()
}

func genScenario(t *core.Tape, prop string, numCPU int) *Scenario {
	k := knobsFor(prop)
	sc := &Scenario{Property: prop, knobs: k, NumCPU: numCPU}
	sc.Signal = k.Signals[t.Draw(core.Cfg, len(k.Signals))]
	sizes := sizesAll
	if k.SmallSizes {
		sizes = sizesSmall
	}
	c := &sc.Cfg
	c.SendBatchSize = sizes[t.Draw(core.Cfg, len(sizes))]
	if !pct(t, core.Cfg, k.NoMaxSizePct) {
		if c.SendBatchSize == 0 {
			c.SendBatchMaxSize = uint32(1 + t.Draw(core.Cfg, 5))
		} else {
			c.SendBatchMaxSize = c.SendBatchSize + uint32(t.Draw(core.Cfg, 5))
		}
	}
	c.Timeout = timeouts[t.Weighted(core.Cfg, 2, 4, 3, 1)]
	if pct(t, core.Cfg, k.MetadataPct) {
		switch t.Draw(core.Cfg, 3) {
		case 0:
			c.MetadataKeys = []string{"tenant"}
		case 1:
			c.MetadataKeys = []string{"Tenant"}
		case 2:
			c.MetadataKeys = []string{"Zone", "tenant"}
		}
		c.Limit = uint32(t.Draw(core.Cfg, 4))
	}
	if pct(t, core.Cfg, k.MaxConcPct) {
		c.MaxConcurrency = uint32(1 + t.Draw(core.Cfg, 3))
	}
	c.EarlyReturn = pct(t, core.Cfg, k.EarlyReturnPct)
	sc.Clock = "faithful"
	if pct(t, core.Cfg, k.StallingPct) {
		sc.Clock = "stalling"
	}
	sc.Policy = []string{"uniform", "sticky", "priority"}[t.Weighted(core.Cfg, 2, 1, 1)]
	sc.HonourCtx = pct(t, core.Cfg, k.HonourCtxPct)
	sc.DownstreamKeepsData = pct(t, core.Cfg, 30)
	sc.Unit = c.Timeout
	if sc.Unit == 0 {
		sc.Unit = 10 * time.Millisecond
	}
	if sc.Unit > 200*time.Millisecond {
		sc.Unit = 200 * time.Millisecond
	}

	// metadata combinations
	if len(c.MetadataKeys) > 0 {
		n := 1 + t.Draw(core.Gen, 5)
		vals := [][]string{nil, {""}, {"a"}, {"b"}, {"a", "b"}, {"b", "a"}, {}}
		for i := 0; i < n; i++ {
			md := map[string][]string{}
			for _, key := range c.MetadataKeys {
				v := vals[t.Draw(core.Gen, len(vals))]
				if t.Chance(core.Ext, 1, 3) {
					// value lists that differ from the ones above only in how the list is carried:
					// a key repeated with two values vs. one value with a delimiter in it, an
					// empty value next to a real one, a value that is the concatenation of two
					v = extVals[t.Draw(core.Ext, len(extVals))]
				}
				if v == nil {
					continue
				}
				kk := strings.ToLower(key)
				switch t.Draw(core.Gen, 3) {
				case 1:
					kk = strings.ToUpper(key)
				case 2:
					kk = strings.ToUpper(key[:1]) + strings.ToLower(key[1:])
				}
				md[kk] = v
			}
			if t.Chance(core.Gen, 1, 3) {
				md["other"] = []string{fmt.Sprintf("x%d", i)}
			}
			sc.Combos = append(sc.Combos, ComboPlan{MD: md, Key: comboKey(c.MetadataKeys, md)})
		}
	}

	ncallers := 1 + t.Draw(core.Gen, k.MaxCallers)
	sameStart := pct(t, core.Gen, k.SameStartPct)
	starts := []time.Duration{0, sc.Unit / 2, sc.Unit, sc.Unit * 3 / 2, 2 * sc.Unit, 3 * sc.Unit}
	vid := 1
	rid := 0
	for ci := 0; ci < ncallers; ci++ {
		cp := &CallerPlan{}
		if !sameStart {
			cp.StartAt = starts[t.Draw(core.Gen, len(starts))]
		}
		nreq := 1 + t.Draw(core.Gen, k.MaxReqs)
		for ri := 0; ri < nreq; ri++ {
			rp := &ReqPlan{ID: rid, Caller: ci, Combo: -1, CancelNotBefore: -1}
			rid++
			if len(sc.Combos) > 0 {
				rp.Combo = t.Draw(core.Gen, len(sc.Combos))
			}
			rp.CtxKind = "background"
			if ri > 0 && pct(t, core.Gen, k.SharedCtxPct) {
				rp.CtxKind = "shared"
				rp.Combo = cp.Reqs[ri-1].Combo
			} else if pct(t, core.Fault, k.CancelPct) {
				rp.CtxKind = "cancel"
				rp.CancelNotBefore = t.Weighted(core.Fault, 4, 3, 3, 2, 2, 1, 1, 1) * (1 + t.Draw(core.Fault, 6))
			} else if pct(t, core.Fault, k.DeadlinePct) {
				rp.CtxKind = "deadline"
				ds := []time.Duration{sc.Unit / 2, sc.Unit, 2 * sc.Unit, 4 * sc.Unit, 0}
				rp.Deadline = ds[t.Draw(core.Fault, len(ds))]
				// one nanosecond earlier or later, or exactly on the grid: a
				// deadline that coincides with the flush timer (or another
				// deadline) fires in an order the runtime picks; off the
				// grid the tape has picked the order
				rp.Deadline += time.Duration(t.Draw(core.Fault, 3) - 1)
			}
			// shape
			nres := 1 + t.Weighted(core.Gen, 5, 3, 1)
			for a := 0; a < nres; a++ {
				nsc := 1 + t.Weighted(core.Gen, 5, 3, 1)
				var res [][]int
				for b := 0; b < nsc; b++ {
					var leaf []int
					nm := 1
					if sc.Signal == "metrics" {
						nm = 1 + t.Weighted(core.Gen, 4, 3, 2)
					}
					for m := 0; m < nm; m++ {
						n := t.Weighted(core.Gen, 1, 4, 3, 2, 1, 1)
						leaf = append(leaf, n)
						rp.NItems += n
					}
					res = append(res, leaf)
				}
				rp.Shape = append(rp.Shape, res)
			}
			rp.VidLo = vid
			vid += rp.NItems
			cp.Reqs = append(cp.Reqs, rp)
			sc.NReqs++
			sc.NItems += rp.NItems
		}
		sc.Callers = append(sc.Callers, cp)
	}
	sc.ShutdownNotBefore = -1
	if pct(t, core.Fault, k.ShutdownMidPct) {
		sc.ShutdownNotBefore = t.Draw(core.Fault, 12) * (1 + t.Draw(core.Fault, 10))
	}
	return sc
}
