package batchsim

import (
	"errors"
	"fmt"
	"sort"
	"strings"
	"time"

	"github.com/anishathalye/porcupine"
	"go.opentelemetry.io/collector/consumer/consumererror"
	sdktrace "go.opentelemetry.io/otel/sdk/trace"
	"go.opentelemetry.io/otel/trace"
)

func sameVals(a, b []string) bool {
	if len(a) != len(b) {
		return false
	}
	for i := range a {
		if a[i] != b[i] {
			return false
		}
	}
	return true
}

func (h *Harness) hasTimer() bool { return h.sc.Cfg.Timeout != 0 && h.sc.Cfg.SendBatchSize != 0 }

// onExportInvoke: oracles evaluated the moment the next consumer is entered
// (lock held).
func (h *Harness) onExportInvoke(ex *ExportState, combo string) {
	cfg := h.sc.Cfg
	n := len(ex.Items)
	// C09
	if n == 0 {
		h.violate("C09", "non-empty", fmt.Sprintf("export#%d carries no items", ex.ID), nil)
	}
	if cfg.SendBatchMaxSize > 0 && n > int(cfg.SendBatchMaxSize) {
		h.violate("C09", "max-size", fmt.Sprintf("export#%d carries %d items, send_batch_max_size=%d", ex.ID, n, cfg.SendBatchMaxSize), nil)
	}
	// C05 (online part)
	owners := map[*ReqState]int{}
	for _, it := range ex.Items {
		r := h.ownerOf[it.Vid]
		if r == nil {
			h.violate("C05", "no-invention", fmt.Sprintf("export#%d carries an item (%s, id %d) that no request submitted", ex.ID, it.Desc, it.Vid), nil)
			continue
		}
		owners[r]++
		h.expCount[it.Vid]++
		if h.expCount[it.Vid] > 1 {
			h.violate("C05", "at-most-once", fmt.Sprintf("item %d of req#%d exported %d times (again in export#%d)", it.Vid, r.Plan.ID, h.expCount[it.Vid], ex.ID), nil)
		}
		if !r.Invoked {
			h.violate("C05", "no-invention", fmt.Sprintf("item %d exported before its request req#%d was submitted", it.Vid, r.Plan.ID), nil)
		}
	}
	if len(owners) >= 2 {
		h.probe("merged_batch")
	}
	// C10
	if len(cfg.MetadataKeys) > 0 {
		var first *ReqState
		for r := range owners {
			if first == nil || r.Plan.ID < first.Plan.ID {
				first = r
			}
		}
		for r := range owners {
			if r.ComboKey != first.ComboKey {
				h.violate("C10", "no-mixing", fmt.Sprintf("export#%d mixes items of req#%d (%s) and req#%d (%s)", ex.ID, first.Plan.ID, first.ComboKey, r.Plan.ID, r.ComboKey), nil)
			}
		}
		if first != nil {
			md := map[string][]string{}
			for k, v := range h.sc.Combos[first.Plan.Combo].MD {
				md[strings.ToLower(k)] = v
			}
			for _, k := range cfg.MetadataKeys {
				want := md[strings.ToLower(k)]
				if !sameVals(want, ex.MD[k]) {
					h.violate("C10", "metadata-agrees", fmt.Sprintf("export#%d: client metadata %q=%q, the batch's combination has %q", ex.ID, k, ex.MD[k], want), nil)
				}
			}
		}
	}
	// C11
	if cfg.MaxConcurrency > 0 && h.inflight[combo] > int(cfg.MaxConcurrency) {
		h.violate("C11", "concurrency", fmt.Sprintf("%d export calls in flight for combination %q, max_concurrency=%d", h.inflight[combo], combo, cfg.MaxConcurrency), nil)
	}
	if cfg.MaxConcurrency > 0 && h.inflight[combo] == int(cfg.MaxConcurrency) {
		h.probe("concurrency_limit_reached")
	}
	if h.ShutdownInvoked {
		h.probe("export_during_shutdown_drain")
	}
}

// stepInvariants run after every scheduler step (lock held).
func (h *Harness) stepInvariants(quiescent bool) {
	cfg := h.sc.Cfg
	// reach probes: rare conditions the search should visit (counted once per run)
	for _, t := range h.s.tasks {
		if t.parked || t.exited {
			continue
		}
		switch {
		case t.Role == "caller" && t.Site == "consume.send" && !h.seen["q"]:
			// released from consume.send, not parked again: blocked on a full queue
			if t.Req != nil && !t.Req.Returned && !t.Req.Enqueued {
				h.seen["q"] = true
				h.probe("caller_blocked_on_full_queue")
			}
		case t.Role == "loop" && (t.Site == "send.acquire" || strings.HasPrefix(t.Site, "auto.shared")) && cfg.MaxConcurrency > 0 && h.inflightAll >= int(cfg.MaxConcurrency) && !h.seen["s"]:
			h.seen["s"] = true
			h.probe("loop_blocked_on_concurrency_limit")
		case t.Role == "shutdown" && t.Site == "shutdown.wait" && !h.seen["w"]:
			h.seen["w"] = true
			h.probe("shutdown_waiting_for_exports")
		}
	}
	if cfg.MaxConcurrency > 0 {
		for c, n := range h.inflight {
			if n > int(cfg.MaxConcurrency) {
				h.violate("C11", "concurrency", fmt.Sprintf("%d export calls in flight for combination %q, max_concurrency=%d", n, c, cfg.MaxConcurrency), nil)
			}
		}
	}
	// With a concurrency limit the clause applies only while the limit is not
	// holding exports back: at a quiescent point every held slot belongs to an
	// export call in flight, so fewer calls in flight than slots means a slot
	// is free.
	if !quiescent || (cfg.MaxConcurrency != 0 && h.inflightAll >= int(cfg.MaxConcurrency)) {
		return
	}
	// C09 size-trigger: nothing runnable => every shard loop is idle, so what
	// is buffered is exactly accepted minus handed to an export.
	buffered := map[string]int{}
	for _, r := range h.reqs {
		if r.Enqueued {
			buffered[r.ComboKey] += r.Plan.NItems
		}
	}
	for _, ex := range h.exports {
		for _, it := range ex.Items {
			if r := h.ownerOf[it.Vid]; r != nil {
				buffered[r.ComboKey]--
			}
		}
	}
	for c, n := range buffered {
		if h.hasTimer() {
			if n >= int(cfg.SendBatchSize) {
				h.violate("C09", "size-trigger", fmt.Sprintf("system idle with %d items buffered for combination %q, send_batch_size=%d", n, c, cfg.SendBatchSize), nil)
			}
			if n > 0 {
				h.probe("idle_with_partial_buffer")
			}
		} else if n > 0 {
			h.violate("C09", "size-trigger", fmt.Sprintf("system idle with %d items buffered for combination %q although timeout=%v send_batch_size=%d means immediate export", n, c, cfg.Timeout, cfg.SendBatchSize), nil)
		}
	}
}

// onShutdownReturn: C11 shutdown-drains (lock held).
func (h *Harness) onShutdownReturn() {
	for _, ex := range h.exports {
		if !ex.Returned {
			h.violate("C11", "shutdown-drains", fmt.Sprintf("Shutdown returned while export#%d is still in flight", ex.ID), nil)
		}
	}
	for _, r := range h.reqs {
		if !h.accepted(r) {
			continue
		}
		for _, it := range r.Items {
			if h.expCount[it.Vid] == 0 {
				h.violate("C11", "shutdown-drains", fmt.Sprintf("Shutdown returned but item %d of accepted req#%d was never exported", it.Vid, r.Plan.ID), nil)
				return
			}
		}
	}
}

func (h *Harness) exportsOf(r *ReqState) []*ExportState {
	var out []*ExportState
	for _, ex := range h.exports {
		for _, it := range ex.Items {
			if h.ownerOf[it.Vid] == r {
				out = append(out, ex)
				break
			}
		}
	}
	return out
}

// turnedAwayByShutdown: the call overlapped or followed the invocation of
// Shutdown and was refused with an error without anything being queued.
func (h *Harness) turnedAwayByShutdown(r *ReqState) bool {
	return h.ShutdownInvoked && r.Returned && r.Err != nil && !r.Enqueued && !isCtxErr(r.Err) && !h.wrapsAnyFailure(r.Err) &&
		(h.race || r.ReturnStep >= h.ShutdownInvokeStep) && !consumererror.IsPermanent(r.Err)
}

func (h *Harness) refused(r *ReqState) bool {
	return len(h.sc.Cfg.MetadataKeys) > 0 && h.sc.Cfg.Limit > 0 && r.Returned && r.Err != nil && !r.Enqueued && !isCtxErr(r.Err) && consumererror.IsPermanent(r.Err) && !h.wrapsAnyFailure(r.Err)
}

func (h *Harness) wrapsAnyFailure(err error) bool {
	for _, ex := range h.exports {
		if ex.Failure != nil && errors.Is(err, ex.Failure) {
			return true
		}
	}
	return false
}

// finalOracles: checks over the finished history (lock held).
func (h *Harness) finalOracles() {
	complete := h.end == endDone
	cfg := h.sc.Cfg
	faithful := h.sc.Clock == "faithful"

	switch h.end {
	case endDeadlock:
		h.violate("C11", "no-deadlock", h.describeStuck("no task is runnable and advancing the clock past every pending latency, deadline and flush period releases nobody"), nil)
	case endStepCap, endTimeCap:
		h.violate("C11", "progress", h.describeStuck(fmt.Sprintf("run did not finish within %d scheduler steps / %v of virtual time", stepCap, vtCap)), nil)
	}
	if complete {
		budget := 200 * (1 + len(h.reqs) + len(h.exports) + h.ticks + h.s.stalls + h.s.advances)
		if int(h.s.Step()) > budget {
			h.violate("C11", "progress", fmt.Sprintf("%d scheduler steps for %d requests, %d exports, %d timer ticks (budget %d)", h.s.Step(), len(h.reqs), len(h.exports), h.ticks, budget), nil)
		}
	}

	// ---- C05
	for _, r := range h.reqs {
		for _, it := range r.Items {
			n := h.expCount[it.Vid]
			switch {
			case h.accepted(r) && n == 0 && (complete || h.end == endDeadlock):
				how := "by the time Shutdown returned"
				if !complete {
					how = "and the system can make no further progress"
				}
				h.violate("C05", "exactly-once", fmt.Sprintf("item %d of accepted req#%d was never exported %s", it.Vid, r.Plan.ID, how), nil)
			case !r.Invoked && n > 0:
				h.violate("C05", "no-invention", fmt.Sprintf("item %d of req#%d exported although the request was never submitted", it.Vid, r.Plan.ID), nil)
			case h.refused(r) && n > 0:
				// C10 refused-clean reports this
			}
		}
	}
	sub := map[int64]ItemObs{}
	for _, r := range h.reqs {
		for _, it := range r.Items {
			sub[it.Vid] = it
		}
	}
	for _, ex := range h.exports {
		for _, it := range ex.Items {
			w, ok := sub[it.Vid]
			if !ok {
				continue
			}
			if it.Item != w.Item {
				h.violate("C05", "content", fmt.Sprintf("%s (item %d) reached the next consumer with changed content (export#%d)", it.Desc, it.Vid, ex.ID), nil)
			}
			if it.Res != w.Res {
				h.violate("C05", "container", fmt.Sprintf("%s (item %d) was exported under a resource that differs from the one it arrived with (attributes, dropped count or schema URL; export#%d)", it.Desc, it.Vid, ex.ID), map[string]string{"part": "resource"})
			}
			if it.Scope != w.Scope {
				h.violate("C05", "container", fmt.Sprintf("%s (item %d) was exported under a scope that differs from the one it arrived with (name, version, attributes or schema URL; export#%d)", it.Desc, it.Vid, ex.ID), map[string]string{"part": "scope"})
			}
			if it.Metric != w.Metric {
				h.violate("C05", "container", fmt.Sprintf("%s (item %d) was exported under a metric descriptor that differs from the one it arrived with (export#%d)", it.Desc, it.Vid, ex.ID), map[string]string{"part": "metric"})
			}
		}
	}

	// ---- C06 (step-stamped: controlled mode only)
	for _, r := range h.reqs {
		if !h.race && h.end == endDeadlock && r.Invoked && !r.Returned && !cfg.EarlyReturn && r.Plan.NItems > 0 {
			// the system can make no further progress: a call whose items have all
			// been exported, every such export having returned, will never return
			all, allReturned := true, true
			for _, it := range r.Items {
				if h.expCount[it.Vid] == 0 {
					all = false
				}
			}
			for _, ex := range h.exportsOf(r) {
				if !ex.Returned {
					allReturned = false
				}
			}
			if all && allReturned {
				h.violate("C06", "returns-eventually", fmt.Sprintf("Consume(req#%d) never returns although every export that carried its %d items has returned; the system can make no further progress", r.Plan.ID, r.Plan.NItems), nil)
			}
		}
		if h.race || !r.Returned || !r.Invoked {
			continue
		}
		exps := h.exportsOf(r)
		if len(exps) >= 2 {
			h.probe("request_split_over_batches")
		}
		if h.refused(r) {
			continue
		}
		if h.turnedAwayByShutdown(r) {
			h.probe("consume_refused_because_shutting_down")
			for _, it := range r.Items {
				if h.expCount[it.Vid] > 0 {
					h.violate("C05", "no-invention", fmt.Sprintf("req#%d was refused (%v) while shutting down but its item %d was exported", r.Plan.ID, r.Err, it.Vid), nil)
					break
				}
			}
			continue
		}
		ctxEnded := r.CtxErrAtReturn != nil
		endVT, hasEnd := r.Ctx.endVT()
		if cfg.EarlyReturn {
			if r.Err != nil && !(isCtxErr(r.Err) && ctxEnded && !r.Enqueued) {
				h.violate("C06", "early-nil", fmt.Sprintf("early_return: Consume(req#%d) returned %v", r.Plan.ID, r.Err), nil)
			}
			if faithful && cfg.MaxConcurrency == 0 && r.ReturnVT != r.InvokeVT {
				h.violate("C06", "early-prompt", fmt.Sprintf("early_return with unlimited concurrency: Consume(req#%d) called at %v returned at %v", r.Plan.ID, r.InvokeVT, r.ReturnVT), nil)
			}
			continue
		}
		if ctxEnded {
			h.probe("caller_ctx_ended_before_return")
			if faithful && hasEnd {
				lim := r.InvokeVT
				if endVT > lim {
					lim = endVT
				}
				if r.ReturnVT > lim {
					h.violate("C06", "prompt", fmt.Sprintf("req#%d: context ended at %v, call made at %v, but Consume returned only at %v", r.Plan.ID, endVT, r.InvokeVT, r.ReturnVT), nil)
				}
			}
			if isCtxErr(r.Err) && errors.Is(r.Err, r.CtxErrAtReturn) {
				continue // returned the context error
			}
			// otherwise it must be a legitimately completed outcome: fall through
		} else if isCtxErr(r.Err) {
			// a context error although this caller's context is alive: only
			// legitimate as the wrapped failure of an export that carried its items
			ok := false
			for _, ex := range exps {
				if ex.Returned && ex.Err != nil && errors.Is(r.Err, ex.Err) && isCtxErr(ex.Err) {
					ok = true
				}
			}
			if !ok {
				h.violate("C06", "ctx-error-without-cause", fmt.Sprintf("req#%d returned %v although its context has not ended and no export carrying its items failed that way", r.Plan.ID, r.Err), nil)
			}
		}
		// completed outcome
		var failing []*ExportState
		all := true
		for _, it := range r.Items {
			if h.expCount[it.Vid] == 0 {
				all = false
			}
		}
		if !all {
			h.violate("C06", "returns-after-exports", fmt.Sprintf("Consume(req#%d) returned %v at step %d before all of its %d items had been exported", r.Plan.ID, r.Err, r.ReturnStep, r.Plan.NItems), nil)
		}
		for _, ex := range exps {
			if !ex.Returned || ex.ReturnStep >= r.ReturnStep {
				h.violate("C06", "returns-after-exports", fmt.Sprintf("Consume(req#%d) returned at step %d, but export#%d carrying its items had not returned yet (returned=%v at step %d)", r.Plan.ID, r.ReturnStep, ex.ID, ex.Returned, ex.ReturnStep), nil)
				continue
			}
			if ex.Err != nil {
				failing = append(failing, ex)
			}
		}
		if (r.Err == nil) != (len(failing) == 0) && all {
			h.violate("C06", "nil-iff-all-ok", fmt.Sprintf("Consume(req#%d) returned %v but %d of the %d exports that carried its items failed", r.Plan.ID, r.Err, len(failing), len(exps)), nil)
		}
		if r.Err != nil && len(failing) > 0 {
			wraps := false
			for _, ex := range failing {
				if errors.Is(r.Err, ex.Err) || (ex.Failure != nil && errors.Is(r.Err, ex.Failure)) {
					wraps = true
				}
			}
			if !wraps {
				h.violate("C06", "wraps-failure", fmt.Sprintf("Consume(req#%d) returned %q which wraps none of the failures of the exports that carried its items", r.Plan.ID, r.Err), nil)
			}
		}
		if r.Err != nil {
			for _, ex := range h.exports {
				if ex.Failure == nil || !errors.Is(r.Err, ex.Failure) {
					continue
				}
				mine := false
				for _, e2 := range exps {
					if e2 == ex {
						mine = true
					}
				}
				if !mine {
					h.violate("C06", "no-misattribution", fmt.Sprintf("Consume(req#%d) returned the failure of export#%d which carried none of its items", r.Plan.ID, ex.ID), nil)
				}
			}
		}
	}

	// ---- C09 deadline
	if !h.race && h.end == endDeadlock && (cfg.MaxConcurrency == 0 || h.inflightAll < int(cfg.MaxConcurrency)) {
		for _, r := range h.reqs {
			if !r.Enqueued {
				continue
			}
			for _, it := range r.Items {
				if h.expCount[it.Vid] == 0 {
					h.violate("C09", "deadline", fmt.Sprintf("item %d accepted at %v is never exported: the system can make no further progress and the concurrency limit is not holding exports back (%d export calls in flight, max_concurrency=%d)", it.Vid, r.EnqVT, h.inflightAll, cfg.MaxConcurrency), nil)
					break
				}
			}
		}
	}
	if faithful && !h.race && cfg.MaxConcurrency == 0 {
		for _, ex := range h.exports {
			for _, it := range ex.Items {
				r := h.ownerOf[it.Vid]
				if r == nil || !r.Enqueued {
					continue
				}
				wait := ex.InvokeVT - r.EnqVT
				if h.hasTimer() {
					if wait > cfg.Timeout {
						h.violate("C09", "deadline", fmt.Sprintf("item %d accepted at %v was exported at %v: %v later, timeout=%v", it.Vid, r.EnqVT, ex.InvokeVT, wait, cfg.Timeout), nil)
					}
					if wait == cfg.Timeout {
						h.probe("exported_exactly_at_timeout")
					}
				} else if wait > 0 {
					h.violate("C09", "deadline", fmt.Sprintf("item %d accepted at %v was exported at %v although timeout=%v send_batch_size=%d means immediate export", it.Vid, r.EnqVT, ex.InvokeVT, cfg.Timeout, cfg.SendBatchSize), nil)
				}
			}
		}
	}

	// ---- C10
	if len(cfg.MetadataKeys) > 0 {
		for _, r := range h.reqs {
			if h.race || !r.Returned || r.Err == nil || r.Enqueued || isCtxErr(r.Err) || h.wrapsAnyFailure(r.Err) || h.turnedAwayByShutdown(r) {
				continue
			}
			// the request was turned away
			h.probe("request_refused")
			if !consumererror.IsPermanent(r.Err) {
				h.violate("C10", "refused-clean", fmt.Sprintf("req#%d was refused with %q which is not a permanent error", r.Plan.ID, r.Err), nil)
			}
			for _, it := range r.Items {
				if h.expCount[it.Vid] > 0 {
					h.violate("C10", "refused-clean", fmt.Sprintf("req#%d was refused (%v) but its item %d was exported", r.Plan.ID, r.Err, it.Vid), nil)
					break
				}
			}
		}
		if complete && !h.race {
			h.checkAdmission()
		}
	}

	// ---- C18
	if !h.race {
		h.checkContexts()
	}

	// probes
	for _, ex := range h.exports {
		if ex.InvokeVT > 0 && h.hasTimer() && len(ex.Items) < int(cfg.SendBatchSize) && !h.ShutdownInvoked {
			h.probe("timer_flush")
			break
		}
	}
}

func (h *Harness) describeStuck(why string) string {
	var b strings.Builder
	b.WriteString(why)
	b.WriteString("; outstanding:")
	for _, r := range h.reqs {
		if r.Invoked && !r.Returned {
			fmt.Fprintf(&b, " Consume(req#%d)", r.Plan.ID)
		}
	}
	if h.ShutdownInvoked && !h.ShutdownReturned {
		b.WriteString(" Shutdown")
	}
	for _, ex := range h.exports {
		if !ex.Returned {
			fmt.Fprintf(&b, " export#%d", ex.ID)
		}
	}
	for _, t := range h.s.tasks {
		if !t.exited && !t.harness {
			fmt.Fprintf(&b, " [%s@%s parked=%v]", t.Name, t.Site, t.parked)
		}
	}
	return b.String()
}

// checkAdmission decides C10 `limit`: the history of admissions and refusals
// must be linearizable against a cardinality-limit model.
func (h *Harness) checkAdmission() {
	limit := int(h.sc.Cfg.Limit)
	type in struct{ combo string }
	type out struct{ admitted bool }
	var ops []porcupine.Operation
	admittedCombos := map[string]bool{}
	for _, r := range h.reqs {
		if !r.Invoked || !r.Returned || h.turnedAwayByShutdown(r) {
			continue
		}
		ref := r.Err != nil && !r.Enqueued && !isCtxErr(r.Err) && !h.wrapsAnyFailure(r.Err)
		ret := r.AdmitStep
		if ref {
			ret = r.ReturnStep
		} else {
			admittedCombos[r.ComboKey] = true
		}
		ops = append(ops, porcupine.Operation{ClientId: r.Plan.Caller, Input: in{r.ComboKey}, Call: 2 * r.InvokeStep, Output: out{!ref}, Return: 2*ret + 1})
	}
	if limit > 0 && len(admittedCombos) > limit {
		h.violate("C10", "limit", fmt.Sprintf("%d distinct combinations were admitted, metadata_cardinality_limit=%d", len(admittedCombos), limit), nil)
		return
	}
	if len(ops) == 0 || len(ops) > 24 {
		return
	}
	model := porcupine.Model{
		Init: func() interface{} { return "" },
		Step: func(state, input, output interface{}) (bool, interface{}) {
			st := state.(string)
			c := input.(in).combo
			var set []string
			if st != "" {
				set = strings.Split(st, "\x01")
			}
			has := false
			for _, x := range set {
				if x == c {
					has = true
				}
			}
			if output.(out).admitted {
				if has {
					return true, st
				}
				if limit == 0 || len(set) < limit {
					set = append(set, c)
					sort.Strings(set)
					return true, strings.Join(set, "\x01")
				}
				return false, st
			}
			// refused: legal only when the limit is exhausted
			return limit != 0 && len(set) >= limit, st
		},
		Equal: func(a, b interface{}) bool { return a.(string) == b.(string) },
	}
	res := porcupine.CheckOperationsTimeout(model, ops, 10*time.Second)
	h.probe("admission_history_checked")
	if res == porcupine.Illegal {
		var b strings.Builder
		for _, o := range ops {
			fmt.Fprintf(&b, " [caller%d %q call=%d ret=%d admitted=%v]", o.ClientId, o.Input.(in).combo, o.Call, o.Return, o.Output.(out).admitted)
		}
		h.violate("C10", "limit", fmt.Sprintf("admission history is not linearizable against the cardinality-limit model (limit=%d):%s", limit, b.String()), nil)
	}
	// observation, not a violation: a request of an admitted combination refused
	for _, r := range h.reqs {
		if r.Returned && r.Err != nil && !r.Enqueued && !isCtxErr(r.Err) && admittedCombos[r.ComboKey] {
			h.probe("observation_admitted_combination_refused")
		}
	}
}

// checkContexts decides C18 over the recorded exports and spans.
func (h *Harness) checkContexts() {
	// no-skip: the system can make no further progress, items of an accepted
	// request were never exported, and another caller's context had ended.
	if h.end == endDeadlock {
		for _, r := range h.reqs {
			if !r.Enqueued || r.Ctx == nil {
				continue
			}
			missing := false
			for _, it := range r.Items {
				if h.expCount[it.Vid] == 0 {
					missing = true
				}
			}
			if !missing {
				continue
			}
			if _, ended := r.Ctx.endVT(); ended && r.Ctx.CancelStep >= 0 {
				continue // its own context was cancelled
			}
			for _, c := range h.ctxs {
				if c != r.Ctx && c.CancelStep >= 0 {
					h.violate("C18", "no-skip", fmt.Sprintf("items of req#%d (context ctx%d, still alive) are never exported - the system can make no further progress - after another caller's context ctx%d was cancelled", r.Plan.ID, r.Ctx.ID, c.ID), nil)
					break
				}
			}
		}
	}
	spans := map[trace.SpanID]sdktrace.ReadOnlySpan{}
	for _, sp := range h.rec.Ended() {
		spans[sp.SpanContext().SpanID()] = sp
	}
	for _, ex := range h.exports {
		var contrib []*CtxState
		seen := map[*CtxState]bool{}
		pos := -1
		for i, it := range ex.Items {
			r := h.ownerOf[it.Vid]
			if r == nil || r.Ctx == nil {
				continue
			}
			if !seen[r.Ctx] {
				seen[r.Ctx] = true
				contrib = append(contrib, r.Ctx)
				pos = i
			}
		}
		_ = pos
		esp := spans[ex.SpanID]
		switch {
		case len(contrib) >= 2:
			h.probe("two_contributor_batch")
			feats := map[string]string{"contributors": fmt.Sprint(len(contrib))}
			if ex.Marker != -1 {
				h.violate("C18", "own-context", fmt.Sprintf("export#%d carries items of %d request contexts but runs under caller context ctx%d", ex.ID, len(contrib), ex.Marker), feats)
			}
			if ex.CtxErr {
				h.violate("C18", "no-collateral", fmt.Sprintf("export#%d carrying items of %d request contexts failed with %v because a context ended", ex.ID, len(contrib), ex.Err), feats)
			}
			if esp != nil {
				for _, c := range contrib {
					found := false
					for _, l := range esp.Links() {
						if l.SpanContext.SpanID() == c.SpanID {
							found = true
						}
					}
					if !found {
						h.violate("C18", "links", fmt.Sprintf("export#%d: export span has no link to the span of contributing request context ctx%d", ex.ID, c.ID), feats)
					}
					// link back, if the request span was still open
					if c.SpanEndStep > ex.InvokeStep {
						back := false
						if rs := spans[c.SpanID]; rs != nil {
							for _, l := range rs.Links() {
								if l.SpanContext.SpanID() == ex.SpanID {
									back = true
								}
							}
							if !back {
								h.violate("C18", "links", fmt.Sprintf("export#%d: span of contributing request context ctx%d (still open) received no link back to the export span", ex.ID, c.ID), feats)
							}
						}
					}
				}
			}
		case len(contrib) == 1:
			c := contrib[0]
			if ex.CtxErr && ex.Marker != c.ID {
				h.violate("C18", "no-collateral", fmt.Sprintf("export#%d (items of ctx%d only) failed with %v under context marker %d", ex.ID, c.ID, ex.Err, ex.Marker), nil)
			}
			if esp != nil && esp.Parent().SpanID() != c.SpanID {
				h.violate("C18", "child", fmt.Sprintf("export#%d carries items of request context ctx%d only, but its span is not a child of that request's span", ex.ID, c.ID), nil)
			}
			if ex.CtxErr {
				h.probe("single_context_export_cancelled")
			}
		}
	}
}
