package batchsim

import (
	"fmt"
	"runtime"
	"sort"
	"sync"
	"sync/atomic"
	"testing/synctest"
	"time"

	"verif/core"
)

// Task is one goroutine of the simulated system, known by a logical id that
// does not depend on goroutine numbers: harness tasks are named by the
// harness, a goroutine of the code under test first seen at a hook is "child
// k (of that kind) of the task that was running".
type Task struct {
	ID       int
	Name     string
	Role     string // caller, cancel, shutdown, loop, export, mock
	Site     string
	harness  bool
	gate     chan bool
	gid      uint64
	parked   bool
	exited   bool
	parkStep int64
	parkVT   time.Duration
	children map[string]int
	guard    func() bool
	prio     int
	prioSet  bool
	// Ref is harness data (request or export the task is working on).
	Req *ReqState
}

// Sim is the controlled-concurrency scheduler: every goroutine of the
// processor parks at verifPoint hooks and is released one at a time.
type Sim struct {
	mu      sync.Mutex
	tape    *core.Tape
	byGID   map[uint64]*Task
	tasks   []*Task
	current *Task
	curGID  atomic.Uint64
	rootGID uint64
	step    atomic.Int64
	wake    chan struct{}
	t0      time.Time
	render  bool
	trace   []string
	evbuf   []string
	runbuf  []string
	logHash *core.Hash64
	sigHash *core.Hash64
	done    atomic.Bool

	Policy   string // scheduling policy of this run: uniform | sticky | priority
	prioLow  int
	free     bool // free-running mode: hooks do nothing
	stalling bool // clock mode: advance may be chosen while tasks are runnable
	// rootChildren counts goroutines first seen while no task was running
	// (created by the harness root, e.g. the shard loop during Start).
	rootChildren map[string]int

	foreignSelects int
	selectDraws    int
	advances       int
	stalls         int

	// callbacks (called with mu held)
	onPark    func(t *Task, site string)
	onRelease func(t *Task)
	// invariant is evaluated by the scheduler after every step
	invariant func(quiescent bool)
}

func newSim(tape *core.Tape, render bool) *Sim {
	return &Sim{tape: tape, byGID: map[uint64]*Task{}, wake: make(chan struct{}, 1),
		render: render, logHash: core.NewHash(), sigHash: core.NewHash(), rootGID: runtime.VerifGoid(), t0: time.Now()}
}

// VT is the virtual time since the start of the run.
func (s *Sim) VT() time.Duration { return time.Since(s.t0) }

// Step is the number of the scheduler step in progress.
func (s *Sim) Step() int64 { return s.step.Load() }

// logf records one line of the event log (lock held). Lines of the scheduler
// itself start a new step. Within a step, the lines of the running task keep
// their program order; goroutines merely woken at the same virtual instant
// (two deadlines, two latencies) run concurrently up to their next hook, so
// the order of their event lines carries no information: they are sorted when
// the step ends.
func (s *Sim) logf(format string, a ...any) {
	line := fmt.Sprintf(format, a...)
	gid := runtime.VerifGoid()
	switch {
	case gid == s.rootGID && len(line) > 0 && line[0] == '[':
		s.flushEvents()
		s.emit(line)
	case gid == s.curGID.Load() || gid == s.rootGID:
		s.runbuf = append(s.runbuf, line)
	default:
		s.evbuf = append(s.evbuf, line)
	}
}

func (s *Sim) emit(line string) {
	s.logHash.Str(line)
	if s.render {
		s.trace = append(s.trace, line)
	}
}

func (s *Sim) flushEvents() {
	for _, l := range s.runbuf {
		s.emit(l)
	}
	s.runbuf = s.runbuf[:0]
	if len(s.evbuf) == 0 {
		return
	}
	sort.Strings(s.evbuf)
	for _, l := range s.evbuf {
		s.emit(l)
	}
	s.evbuf = s.evbuf[:0]
}

// Logf records a line of the event log (hash always, text when rendering).
// It never draws from the tape and never reads a real clock.
func (s *Sim) Logf(format string, a ...any) {
	s.mu.Lock()
	s.logf("  [step %d vt %v] "+format, append([]any{s.step.Load(), s.VT()}, a...)...)
	s.mu.Unlock()
}

func roleOfSite(site string) string {
	for i := 0; i < len(site); i++ {
		if site[i] == '.' {
			return site[:i]
		}
	}
	return site
}

// Hook is installed as the processor's VerifHook and is also called by the
// harness' own tasks and by the simulated consumer.
func (s *Sim) Hook(site string) {
	if s.free || s.done.Load() {
		return
	}
	gid := runtime.VerifGoid()
	if gid == s.rootGID {
		return
	}
	s.mu.Lock()
	t := s.byGID[gid]
	if t == nil {
		kind := roleOfSite(site)
		switch kind {
		case "loop", "export":
		default:
			kind = "other"
		}
		parent := s.current
		pname := "h"
		var cnt *map[string]int
		if parent != nil {
			pname = parent.Name
			cnt = &parent.children
		} else {
			cnt = &s.rootChildren
		}
		if *cnt == nil {
			*cnt = map[string]int{}
		}
		k := (*cnt)[kind]
		(*cnt)[kind] = k + 1
		t = &Task{ID: len(s.tasks), Name: fmt.Sprintf("%s/%s%d", pname, kind, k), Role: kind, gate: make(chan bool)}
		t.gid = gid
		s.tasks = append(s.tasks, t)
		s.byGID[gid] = t
	}
	t.parked = true
	t.Site = site
	t.parkStep = s.step.Load()
	t.parkVT = s.VT()
	if s.onPark != nil {
		s.onPark(t, site)
	}
	s.mu.Unlock()
	select {
	case s.wake <- struct{}{}:
	default:
	}
	<-t.gate
}

// Go starts a harness task. Must be called from the root goroutine only, so
// that ids are assigned in a fixed order. The task parks at "<role>.start"
// before running f.
func (s *Sim) Go(name, role string, guard func() bool, f func(t *Task)) *Task {
	t := &Task{Name: name, Role: role, harness: true, gate: make(chan bool), guard: guard}
	s.mu.Lock()
	t.ID = len(s.tasks)
	s.tasks = append(s.tasks, t)
	s.mu.Unlock()
	go func() {
		gid := runtime.VerifGoid()
		s.mu.Lock()
		t.gid = gid
		s.byGID[gid] = t
		s.mu.Unlock()
		if s.Park(role + ".start") {
			f(t)
		}
		s.mu.Lock()
		t.exited = true
		s.mu.Unlock()
	}()
	return t
}

// selectRand decides the poll order of select statements executed by the
// task the scheduler has released. Goroutines that merely run up to their
// next hook after being woken do not select (hooks follow every wake-up); if
// one does, it gets a fixed order and the event is counted.
func (s *Sim) selectRand(n uint32) uint32 {
	if gid := runtime.VerifGoid(); s.done.Load() || gid != s.curGID.Load() {
		if gid != s.rootGID && !s.done.Load() {
			s.mu.Lock()
			s.foreignSelects++
			s.logf("    select by a goroutine that is not the running task (fixed order)")
			s.mu.Unlock()
		}
		return 0
	}
	s.mu.Lock()
	v := s.tape.Draw(core.Sched, int(n))
	s.selectDraws++
	s.logf("    select n=%d -> %d", n, v)
	s.sigHash.Int(int64(v) + 1000)
	s.mu.Unlock()
	return uint32(v)
}

// RunResult of the scheduling loop.
type schedEnd int

const (
	endDone schedEnd = iota
	endDeadlock
	endStepCap
	endTimeCap
)

const (
	stepCap = 20000
	vtCap   = 24 * time.Hour
)

// Run is the scheduler loop, executed by the bubble's root goroutine.
// finished reports whether the workload is complete; horizon is the longest
// stretch of virtual time that may legitimately pass without any harness-
// visible progress (pending latencies, deadlines, start instants and flush
// periods); progress returns a counter of harness-visible events.
func (s *Sim) Run(finished func() bool, progress func() int64, horizon time.Duration) schedEnd {
	lastProgress := progress()
	var idle time.Duration // virtual time spent idle since the last progress
	for {
		synctest.Wait()
		if core.Progress != nil {
			core.Progress()
		}
		s.mu.Lock()
		s.flushEvents()
		s.mu.Unlock()
		st := s.step.Add(1)
		s.mu.Lock()
		var ready []*Task
		anyParked := false
		for _, t := range s.tasks {
			if t.parked {
				anyParked = true
				if t.guard == nil || t.guard() {
					ready = append(ready, t)
				}
			}
		}
		s.mu.Unlock()
		if s.invariant != nil {
			s.invariant(len(ready) == 0)
		}
		if p := progress(); p != lastProgress {
			lastProgress = p
			idle = 0
		}
		if finished() && !s.anyRepoTaskParked() {
			return endDone
		}
		if st > stepCap {
			return endStepCap
		}
		if s.VT() > vtCap {
			return endTimeCap
		}
		_ = anyParked
		if len(ready) == 0 {
			// nothing runnable: let virtual time pass until something parks
			if idle > horizon {
				return endDeadlock
			}
			s.advances++
			s.mu.Lock()
			s.logf("[step %d vt %v] idle: advance clock", st, s.VT())
			s.mu.Unlock()
			before := s.VT()
			s.sleepUntilWake(horizon/4 + time.Millisecond)
			idle += s.VT() - before
			continue
		}
		n := len(ready)
		c := 0
		if s.stalling && s.tape.Chance(core.Sched, 1, 10) {
			c = n // stall
		} else {
			c = s.pick(ready)
		}
		if c >= n {
			// stalled system / clock jump: time passes although tasks are runnable
			q := stallQuanta[s.tape.Draw(core.Sched, len(stallQuanta))]
			s.stalls++
			s.mu.Lock()
			s.logf("[step %d vt %v] stall: clock jumps by %v with %d runnable", st, s.VT(), q, n)
			s.sigHash.Str("stall")
			s.mu.Unlock()
			time.Sleep(q)
			continue
		}
		t := ready[c]
		s.mu.Lock()
		t.parked = false
		s.current = t
		s.logf("[step %d vt %v] run %s @%s (of %d)", st, s.VT(), t.Name, t.Site, n)
		s.sigHash.Str(t.Role).Str(t.Site)
		if s.onRelease != nil {
			s.onRelease(t)
		}
		s.mu.Unlock()
		s.curGID.Store(t.gid)
		t.gate <- true
	}
}

// pick chooses the next task among the ready ones according to the run's
// scheduling policy (swarm): uniform random; sticky (keep running the same
// task most of the time, so that one goroutine races far ahead of the others);
// priority (PCT-like: every task has a tape-drawn priority, the highest ready
// one runs, and at tape-chosen change points the running task is demoted, so
// that a goroutine can be starved for a long stretch).
func (s *Sim) pick(ready []*Task) int {
	n := len(ready)
	if n == 1 {
		return 0
	}
	switch s.Policy {
	case "sticky":
		if s.current != nil && !s.tape.Chance(core.Sched, 1, 5) {
			for i, t := range ready {
				if t == s.current {
					return i
				}
			}
		}
		return s.tape.Draw(core.Sched, n)
	case "priority":
		if s.tape.Chance(core.Sched, 1, 12) && s.current != nil {
			s.prioLow--
			s.current.prio = s.prioLow // demote the running task below everything
		}
		best := 0
		for i, t := range ready {
			if !t.prioSet {
				t.prio = s.tape.Draw(core.Sched, 1000)
				t.prioSet = true
			}
			if t.prio > ready[best].prio {
				best = i
			}
		}
		return best
	}
	return s.tape.Draw(core.Sched, n)
}

var stallQuanta = []time.Duration{time.Millisecond, 5 * time.Millisecond, 10 * time.Millisecond, 100 * time.Millisecond, 200 * time.Millisecond, time.Second, 5 * time.Second, time.Minute}

// Park is Hook for harness tasks: it reports false when the run is over and
// the task must return without touching the system again.
func (s *Sim) Park(site string) bool {
	if s.free {
		return true
	}
	if s.done.Load() {
		return false
	}
	s.Hook(site)
	return !s.done.Load()
}

func (s *Sim) anyRepoTaskParked() bool {
	s.mu.Lock()
	defer s.mu.Unlock()
	for _, t := range s.tasks {
		if t.parked && !t.harness {
			return true
		}
	}
	return false
}

// sleepUntilWake lets virtual time pass until a goroutine parks at a hook
// (it signals s.wake) or max elapses. Because the fake clock only moves when
// every goroutine is durably blocked, the scheduler wakes at exactly the
// instant of the timer that made a goroutine runnable.
func (s *Sim) sleepUntilWake(max time.Duration) {
	select {
	case <-s.wake:
	default:
	}
	tm := time.NewTimer(max)
	select {
	case <-tm.C:
	case <-s.wake:
		tm.Stop()
	}
}

// Finish releases every parked harness task with the abort flag and turns all
// hooks into no-ops so that whatever is left can run to completion.
func (s *Sim) Finish() {
	s.done.Store(true)
	s.mu.Lock()
	s.flushEvents()
	var parked []*Task
	for _, t := range s.tasks {
		if t.parked {
			t.parked = false
			parked = append(parked, t)
		}
	}
	s.mu.Unlock()
	for _, t := range parked {
		t.gate <- false
	}
}
