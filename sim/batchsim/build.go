package batchsim

import (
	"fmt"

	"go.opentelemetry.io/collector/pdata/pcommon"
	"go.opentelemetry.io/collector/pdata/plog"
	"go.opentelemetry.io/collector/pdata/pmetric"
	"go.opentelemetry.io/collector/pdata/ptrace"

	"verif/core"
)

// ItemObs is one item (span, log record or metric data point) as submitted or
// as seen by the next consumer: its unique id and the canonical encodings of
// the item itself and of the containers it sits under. The canonical encoding
// is the OTLP protobuf serialisation of a fresh message holding exactly that
// part, so "unchanged content / identity" is byte equality and shares no code
// with the processor.
type ItemObs struct {
	Vid    int64
	Item   uint64 // hash of the item alone
	Res    uint64 // resource incl. its schema URL
	Scope  uint64 // scope incl. its schema URL
	Metric uint64 // metric descriptor (name, description, unit, metadata, type, temporality, monotonic)
	Desc   string // short rendering, for violation messages
}

func vidOf(attrs pcommon.Map) int64 {
	v, ok := attrs.Get("vid")
	if !ok || v.Type() != pcommon.ValueTypeInt {
		return -1
	}
	return v.Int()
}

func fillResource(r pcommon.Resource, req, a int) {
	r.Attributes().PutStr("service.name", fmt.Sprintf("svc-%d-%d", req, a))
	r.Attributes().PutInt("res.n", int64(a))
	r.SetDroppedAttributesCount(uint32(7 + a))
}

func fillScope(s pcommon.InstrumentationScope, req, a, b int) {
	s.SetName(fmt.Sprintf("scope-%d-%d-%d", req, a, b))
	s.SetVersion(fmt.Sprintf("v%d", b+1))
	s.Attributes().PutStr("scope.attr", fmt.Sprintf("sa%d", b))
	s.SetDroppedAttributesCount(uint32(3 + b))
}

func buildTraces(rp *ReqPlan) ptrace.Traces {
	td := ptrace.NewTraces()
	vid := rp.VidLo
	for a, res := range rp.Shape {
		rs := td.ResourceSpans().AppendEmpty()
		fillResource(rs.Resource(), rp.ID, a)
		rs.SetSchemaUrl(fmt.Sprintf("https://schema/res/%d/%d", rp.ID, a))
		for b, leaf := range res {
			ss := rs.ScopeSpans().AppendEmpty()
			fillScope(ss.Scope(), rp.ID, a, b)
			ss.SetSchemaUrl(fmt.Sprintf("https://schema/scope/%d/%d/%d", rp.ID, a, b))
			for i := 0; i < leaf[0]; i++ {
				sp := ss.Spans().AppendEmpty()
				sp.Attributes().PutInt("vid", int64(vid))
				sp.SetName(fmt.Sprintf("span-%d", vid))
				sp.SetSpanID(pcommon.SpanID{byte(vid >> 8), byte(vid), 1, 2, 3, 4, 5, 6})
				sp.SetTraceID(pcommon.TraceID{byte(rp.ID), 9, 9, 9, 9, 9, 9, 9, 9, 9, 9, 9, 9, 9, 9, byte(vid)})
				sp.SetStartTimestamp(pcommon.Timestamp(1000 + vid))
				sp.SetEndTimestamp(pcommon.Timestamp(2000 + vid))
				sp.SetKind(ptrace.SpanKind(1 + vid%5))
				sp.Status().SetCode(ptrace.StatusCode(vid % 3))
				sp.Status().SetMessage("st")
				ev := sp.Events().AppendEmpty()
				ev.SetName("ev")
				ev.Attributes().PutInt("e", int64(vid))
				ln := sp.Links().AppendEmpty()
				ln.SetSpanID(pcommon.SpanID{1, 1, 1, 1, 1, 1, 1, byte(vid)})
				ln.TraceState().FromRaw("k=v")
				vid++
			}
		}
	}
	return td
}

func buildLogs(rp *ReqPlan) plog.Logs {
	ld := plog.NewLogs()
	vid := rp.VidLo
	for a, res := range rp.Shape {
		rl := ld.ResourceLogs().AppendEmpty()
		fillResource(rl.Resource(), rp.ID, a)
		rl.SetSchemaUrl(fmt.Sprintf("https://schema/res/%d/%d", rp.ID, a))
		for b, leaf := range res {
			sl := rl.ScopeLogs().AppendEmpty()
			fillScope(sl.Scope(), rp.ID, a, b)
			sl.SetSchemaUrl(fmt.Sprintf("https://schema/scope/%d/%d/%d", rp.ID, a, b))
			for i := 0; i < leaf[0]; i++ {
				lr := sl.LogRecords().AppendEmpty()
				lr.Attributes().PutInt("vid", int64(vid))
				lr.Body().SetStr(fmt.Sprintf("log body %d", vid))
				lr.SetTimestamp(pcommon.Timestamp(1000 + vid))
				lr.SetObservedTimestamp(pcommon.Timestamp(3000 + vid))
				lr.SetSeverityNumber(plog.SeverityNumber(1 + vid%20))
				lr.SetSeverityText("sev")
				lr.SetFlags(plog.LogRecordFlags(vid % 2))
				lr.SetDroppedAttributesCount(uint32(vid % 4))
				vid++
			}
		}
	}
	return ld
}

func buildMetrics(rp *ReqPlan) pmetric.Metrics {
	md := pmetric.NewMetrics()
	vid := rp.VidLo
	mcount := 0
	for a, res := range rp.Shape {
		rm := md.ResourceMetrics().AppendEmpty()
		fillResource(rm.Resource(), rp.ID, a)
		rm.SetSchemaUrl(fmt.Sprintf("https://schema/res/%d/%d", rp.ID, a))
		for b, leaf := range res {
			sm := rm.ScopeMetrics().AppendEmpty()
			fillScope(sm.Scope(), rp.ID, a, b)
			sm.SetSchemaUrl(fmt.Sprintf("https://schema/scope/%d/%d/%d", rp.ID, a, b))
			for mi, n := range leaf {
				m := sm.Metrics().AppendEmpty()
				m.SetName(fmt.Sprintf("metric-%d-%d-%d-%d", rp.ID, a, b, mi))
				m.SetDescription(fmt.Sprintf("desc %d", mi))
				m.SetUnit([]string{"ms", "By", "1"}[mi%3])
				m.Metadata().PutStr("md.key", fmt.Sprintf("md%d", mi))
				typ := (rp.ID + mcount) % 5
				mcount++
				switch typ {
				case 0:
					dps := m.SetEmptyGauge().DataPoints()
					for i := 0; i < n; i++ {
						dp := dps.AppendEmpty()
						dp.Attributes().PutInt("vid", int64(vid))
						dp.SetIntValue(int64(vid))
						dp.SetTimestamp(pcommon.Timestamp(1000 + vid))
						vid++
					}
				case 1:
					s := m.SetEmptySum()
					s.SetAggregationTemporality(pmetric.AggregationTemporalityCumulative)
					s.SetIsMonotonic(true)
					for i := 0; i < n; i++ {
						dp := s.DataPoints().AppendEmpty()
						dp.Attributes().PutInt("vid", int64(vid))
						dp.SetDoubleValue(float64(vid) + 0.5)
						dp.SetStartTimestamp(pcommon.Timestamp(500 + vid))
						ex := dp.Exemplars().AppendEmpty()
						ex.SetIntValue(int64(vid))
						vid++
					}
				case 2:
					h := m.SetEmptyHistogram()
					h.SetAggregationTemporality(pmetric.AggregationTemporalityDelta)
					for i := 0; i < n; i++ {
						dp := h.DataPoints().AppendEmpty()
						dp.Attributes().PutInt("vid", int64(vid))
						dp.SetCount(uint64(vid))
						dp.SetSum(float64(vid))
						dp.BucketCounts().FromRaw([]uint64{1, uint64(vid)})
						dp.ExplicitBounds().FromRaw([]float64{10})
						vid++
					}
				case 3:
					h := m.SetEmptyExponentialHistogram()
					h.SetAggregationTemporality(pmetric.AggregationTemporalityCumulative)
					for i := 0; i < n; i++ {
						dp := h.DataPoints().AppendEmpty()
						dp.Attributes().PutInt("vid", int64(vid))
						dp.SetCount(uint64(vid))
						dp.SetScale(int32(vid % 4))
						dp.Positive().BucketCounts().FromRaw([]uint64{uint64(vid), 2})
						dp.SetZeroCount(1)
						vid++
					}
				case 4:
					dps := m.SetEmptySummary().DataPoints()
					for i := 0; i < n; i++ {
						dp := dps.AppendEmpty()
						dp.Attributes().PutInt("vid", int64(vid))
						dp.SetCount(uint64(vid))
						dp.SetSum(float64(vid) * 2)
						q := dp.QuantileValues().AppendEmpty()
						q.SetQuantile(0.5)
						q.SetValue(float64(vid))
						vid++
					}
				}
			}
		}
	}
	return md
}

var (
	tMarsh ptrace.ProtoMarshaler
	lMarsh plog.ProtoMarshaler
	mMarsh pmetric.ProtoMarshaler
)

func hb(b []byte, err error) uint64 {
	if err != nil {
		return 0
	}
	return core.HashBytes(b)
}

func resHash(r pcommon.Resource, schemaURL string) uint64 {
	td := ptrace.NewTraces()
	rs := td.ResourceSpans().AppendEmpty()
	r.CopyTo(rs.Resource())
	rs.SetSchemaUrl(schemaURL)
	return hb(tMarsh.MarshalTraces(td))
}

func scopeHash(s pcommon.InstrumentationScope, schemaURL string) uint64 {
	td := ptrace.NewTraces()
	ss := td.ResourceSpans().AppendEmpty().ScopeSpans().AppendEmpty()
	s.CopyTo(ss.Scope())
	ss.SetSchemaUrl(schemaURL)
	return hb(tMarsh.MarshalTraces(td))
}

func observeTraces(td ptrace.Traces) (items []ItemObs, emptyContainers int) {
	for i := 0; i < td.ResourceSpans().Len(); i++ {
		rs := td.ResourceSpans().At(i)
		rh := resHash(rs.Resource(), rs.SchemaUrl())
		if rs.ScopeSpans().Len() == 0 {
			emptyContainers++
		}
		for j := 0; j < rs.ScopeSpans().Len(); j++ {
			ss := rs.ScopeSpans().At(j)
			sh := scopeHash(ss.Scope(), ss.SchemaUrl())
			if ss.Spans().Len() == 0 {
				emptyContainers++
			}
			for k := 0; k < ss.Spans().Len(); k++ {
				sp := ss.Spans().At(k)
				one := ptrace.NewTraces()
				sp.CopyTo(one.ResourceSpans().AppendEmpty().ScopeSpans().AppendEmpty().Spans().AppendEmpty())
				items = append(items, ItemObs{Vid: vidOf(sp.Attributes()), Item: hb(tMarsh.MarshalTraces(one)), Res: rh, Scope: sh,
					Desc: fmt.Sprintf("span %q", sp.Name())})
			}
		}
	}
	return
}

func observeLogs(ld plog.Logs) (items []ItemObs, emptyContainers int) {
	for i := 0; i < ld.ResourceLogs().Len(); i++ {
		rl := ld.ResourceLogs().At(i)
		rh := resHash(rl.Resource(), rl.SchemaUrl())
		if rl.ScopeLogs().Len() == 0 {
			emptyContainers++
		}
		for j := 0; j < rl.ScopeLogs().Len(); j++ {
			sl := rl.ScopeLogs().At(j)
			sh := scopeHash(sl.Scope(), sl.SchemaUrl())
			if sl.LogRecords().Len() == 0 {
				emptyContainers++
			}
			for k := 0; k < sl.LogRecords().Len(); k++ {
				lr := sl.LogRecords().At(k)
				one := plog.NewLogs()
				lr.CopyTo(one.ResourceLogs().AppendEmpty().ScopeLogs().AppendEmpty().LogRecords().AppendEmpty())
				items = append(items, ItemObs{Vid: vidOf(lr.Attributes()), Item: hb(lMarsh.MarshalLogs(one)), Res: rh, Scope: sh,
					Desc: fmt.Sprintf("log %q", lr.Body().AsString())})
			}
		}
	}
	return
}

// metricDescHash hashes the metric descriptor: everything of the metric
// except its data points.
func metricDescHash(m pmetric.Metric) uint64 {
	one := pmetric.NewMetrics()
	d := one.ResourceMetrics().AppendEmpty().ScopeMetrics().AppendEmpty().Metrics().AppendEmpty()
	d.SetName(m.Name())
	d.SetDescription(m.Description())
	d.SetUnit(m.Unit())
	m.Metadata().CopyTo(d.Metadata())
	switch m.Type() {
	case pmetric.MetricTypeGauge:
		d.SetEmptyGauge()
	case pmetric.MetricTypeSum:
		s := d.SetEmptySum()
		s.SetAggregationTemporality(m.Sum().AggregationTemporality())
		s.SetIsMonotonic(m.Sum().IsMonotonic())
	case pmetric.MetricTypeHistogram:
		d.SetEmptyHistogram().SetAggregationTemporality(m.Histogram().AggregationTemporality())
	case pmetric.MetricTypeExponentialHistogram:
		d.SetEmptyExponentialHistogram().SetAggregationTemporality(m.ExponentialHistogram().AggregationTemporality())
	case pmetric.MetricTypeSummary:
		d.SetEmptySummary()
	}
	return hb(mMarsh.MarshalMetrics(one))
}

func observeMetrics(md pmetric.Metrics) (items []ItemObs, emptyContainers int) {
	for i := 0; i < md.ResourceMetrics().Len(); i++ {
		rm := md.ResourceMetrics().At(i)
		rh := resHash(rm.Resource(), rm.SchemaUrl())
		for j := 0; j < rm.ScopeMetrics().Len(); j++ {
			sm := rm.ScopeMetrics().At(j)
			sh := scopeHash(sm.Scope(), sm.SchemaUrl())
			for k := 0; k < sm.Metrics().Len(); k++ {
				m := sm.Metrics().At(k)
				mh := metricDescHash(m)
				add := func(attrs pcommon.Map, put func(dst pmetric.Metric)) {
					one := pmetric.NewMetrics()
					put(one.ResourceMetrics().AppendEmpty().ScopeMetrics().AppendEmpty().Metrics().AppendEmpty())
					items = append(items, ItemObs{Vid: vidOf(attrs), Item: hb(mMarsh.MarshalMetrics(one)), Res: rh, Scope: sh, Metric: mh,
						Desc: fmt.Sprintf("data point of %q (%s)", m.Name(), m.Type())})
				}
				n := 0
				switch m.Type() {
				case pmetric.MetricTypeGauge:
					dps := m.Gauge().DataPoints()
					n = dps.Len()
					for x := 0; x < n; x++ {
						dp := dps.At(x)
						add(dp.Attributes(), func(d pmetric.Metric) { dp.CopyTo(d.SetEmptyGauge().DataPoints().AppendEmpty()) })
					}
				case pmetric.MetricTypeSum:
					dps := m.Sum().DataPoints()
					n = dps.Len()
					for x := 0; x < n; x++ {
						dp := dps.At(x)
						add(dp.Attributes(), func(d pmetric.Metric) { dp.CopyTo(d.SetEmptySum().DataPoints().AppendEmpty()) })
					}
				case pmetric.MetricTypeHistogram:
					dps := m.Histogram().DataPoints()
					n = dps.Len()
					for x := 0; x < n; x++ {
						dp := dps.At(x)
						add(dp.Attributes(), func(d pmetric.Metric) { dp.CopyTo(d.SetEmptyHistogram().DataPoints().AppendEmpty()) })
					}
				case pmetric.MetricTypeExponentialHistogram:
					dps := m.ExponentialHistogram().DataPoints()
					n = dps.Len()
					for x := 0; x < n; x++ {
						dp := dps.At(x)
						add(dp.Attributes(), func(d pmetric.Metric) {
							dp.CopyTo(d.SetEmptyExponentialHistogram().DataPoints().AppendEmpty())
						})
					}
				case pmetric.MetricTypeSummary:
					dps := m.Summary().DataPoints()
					n = dps.Len()
					for x := 0; x < n; x++ {
						dp := dps.At(x)
						add(dp.Attributes(), func(d pmetric.Metric) { dp.CopyTo(d.SetEmptySummary().DataPoints().AppendEmpty()) })
					}
				}
				if n == 0 {
					emptyContainers++
				}
			}
		}
	}
	return
}

func observe(data any) ([]ItemObs, int) {
	switch d := data.(type) {
	case ptrace.Traces:
		return observeTraces(d)
	case plog.Logs:
		return observeLogs(d)
	case pmetric.Metrics:
		return observeMetrics(d)
	}
	return nil, 0
}

func buildData(signal string, rp *ReqPlan) any {
	switch signal {
	case "traces":
		return buildTraces(rp)
	case "logs":
		return buildLogs(rp)
	default:
		return buildMetrics(rp)
	}
}
