package batchsim

import (
	"flag"
	"fmt"
	"os"
	"runtime"
	"sync/atomic"
	"testing"
	"time"

	"verif/core"
)

var fRaceLog = flag.String("racelog", "", "GORACE log_path prefix (free-running mode)")

var exitCode int

// TestWorker is the entry point of a worker process: the binary is a test
// binary only because testing/synctest needs a *testing.T.
func TestWorker(t *testing.T) {
	var ticks atomic.Int64
	core.Progress = func() { ticks.Add(1) }
	// real-time watchdog: a goroutine blocked non-durably forever (e.g. on a
	// mutex) stalls synctest.Wait; that is infrastructure trouble, exit 3.
	go func() {
		last := int64(-1)
		same := 0
		for {
			time.Sleep(5 * time.Second)
			cur := ticks.Load()
			if cur == last {
				same++
			} else {
				same = 0
			}
			last = cur
			if same >= 24 {
				buf := make([]byte, 1<<20)
				n := runtime.Stack(buf, true)
				fmt.Fprintf(os.Stderr, "WATCHDOG: no scheduler progress for 120 s of real time\n%s\n", buf[:n])
				os.Exit(3)
			}
		}
	}()
	exitCode = core.WorkerMain(&Engine{T: t, RaceLog: *fRaceLog})
}

func TestMain(m *testing.M) {
	flag.Parse()
	c := m.Run()
	if c != 0 && exitCode == 0 && !core.RaceMode() {
		exitCode = 3
	}
	os.Exit(exitCode)
}
