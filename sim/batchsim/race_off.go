//go:build !race

package batchsim

const raceEnabled = false
