package batchsim

import (
	"context"
	"errors"
	"fmt"
	"runtime"
	"sync"
	"sync/atomic"
	"testing"
	"testing/synctest"
	"time"

	cbp "github.com/open-telemetry/otel-arrow/collector/processor/concurrentbatchprocessor"
	"go.opentelemetry.io/collector/client"
	"go.opentelemetry.io/collector/component"
	"go.opentelemetry.io/collector/component/componenttest"
	"go.opentelemetry.io/collector/consumer"
	"go.opentelemetry.io/collector/consumer/consumererror"
	"go.opentelemetry.io/collector/pdata/plog"
	"go.opentelemetry.io/collector/pdata/pmetric"
	"go.opentelemetry.io/collector/pdata/ptrace"
	"go.opentelemetry.io/collector/processor/processortest"
	sdktrace "go.opentelemetry.io/otel/sdk/trace"
	"go.opentelemetry.io/otel/sdk/trace/tracetest"
	"go.opentelemetry.io/otel/trace"

	"verif/core"
)

type markerKey struct{}

// exportErr is the unique error value returned by one failing export call.
type exportErr struct{ export int }

func (e *exportErr) Error() string { return fmt.Sprintf("simulated export failure #%d", e.export) }

// CtxState is one request context (possibly shared by consecutive requests
// of one caller).
type CtxState struct {
	ID          int
	Kind        string
	ctx         context.Context
	cancel      context.CancelFunc
	span        trace.Span
	SpanID      trace.SpanID
	CreatedStep int64
	CreatedVT   time.Duration
	DeadlineVT  time.Duration // instant the deadline expires (deadline contexts)
	CancelStep  int64         // step in which the cancel task ran (-1: never)
	CancelVT    time.Duration
	SpanEndStep int64 // -1 while open
}

// endedBy reports whether the context had ended at virtual time vt (and, for
// cancellations, no later than step).
func (c *CtxState) endVT() (time.Duration, bool) {
	if c.CancelStep >= 0 && (c.Kind != "deadline" || c.CancelVT <= c.DeadlineVT) {
		return c.CancelVT, true
	}
	if c.Kind == "deadline" {
		return c.DeadlineVT, true
	}
	return 0, false
}

type ReqState struct {
	Plan     *ReqPlan
	Ctx      *CtxState
	Items    []ItemObs
	ComboKey string
	data     any

	Started        bool
	Skipped        bool
	Invoked        bool
	InvokeStep     int64
	InvokeVT       time.Duration
	AdmitStep      int64 // step in which the call got past admission (-1)
	Enqueued       bool
	EnqStep        int64
	EnqVT          time.Duration
	Returned       bool
	ReturnStep     int64
	ReturnVT       time.Duration
	Err            error
	CtxErrAtReturn error
}

type ExportState struct {
	ID          int
	InvokeStep  int64
	InvokeVT    time.Duration
	Returned    bool
	ReturnStep  int64
	ReturnVT    time.Duration
	Items       []ItemObs
	Empties     int
	Err         error // what the simulated consumer returned
	Failure     *exportErr
	CtxErr      bool // returned its context's error
	Marker      int  // caller marker visible in the export context (-1 none)
	MD          map[string][]string
	DoneAtEntry bool
	SpanID      trace.SpanID
	Latency     time.Duration
	Task        string
}

// Harness is one simulated run.
type Harness struct {
	t      *testing.T
	tape   *core.Tape
	opts   core.RunOpts
	sc     *Scenario
	s      *Sim
	race   bool
	proc   processorAPI
	tracer trace.Tracer
	rec    *tracetest.SpanRecorder

	reqs        []*ReqState
	ctxs        []*CtxState
	exports     []*ExportState
	ownerOf     map[int64]*ReqState // vid -> request
	expCount    map[int64]int
	inflight    map[string]int // per combination
	inflightAll int

	callersLeft                            int
	shutdownStarted                        bool
	ShutdownInvoked                        bool
	ShutdownReturned                       bool
	ShutdownInvokeStep, ShutdownReturnStep int64
	ShutdownInvokeVT, ShutdownReturnVT     time.Duration
	progress                               atomic.Int64
	ticks                                  int

	seen       map[string]bool
	seenLimbo  bool
	async      sync.WaitGroup // goroutines of the simulated downstream that keep working on data it owns
	viol       []core.Violation
	faults     map[string]int
	probes     map[string]int
	end        schedEnd
	endVT      time.Duration // virtual time at the end of the run
	maxLatency time.Duration
}

type processorAPI interface {
	Start(context.Context, component.Host) error
	Shutdown(context.Context) error
	consume(ctx context.Context, data any) error
}

type tracesProc struct {
	component.Component
	c consumer.Traces
}

func (p tracesProc) consume(ctx context.Context, d any) error {
	return p.c.ConsumeTraces(ctx, d.(ptrace.Traces))
}

type logsProc struct {
	component.Component
	c consumer.Logs
}

func (p logsProc) consume(ctx context.Context, d any) error {
	return p.c.ConsumeLogs(ctx, d.(plog.Logs))
}

type metricsProc struct {
	component.Component
	c consumer.Metrics
}

func (p metricsProc) consume(ctx context.Context, d any) error {
	return p.c.ConsumeMetrics(ctx, d.(pmetric.Metrics))
}

func (h *Harness) violate(prop, clause, detail string, feats map[string]string) {
	for _, v := range h.viol {
		if v.Property == prop && v.Clause == clause {
			return
		}
	}
	h.viol = append(h.viol, core.Violation{Property: prop, Clause: clause, Detail: detail, Features: feats, Step: int(h.stepNow())})
}

func (h *Harness) stepNow() int64 {
	if h.s != nil {
		return h.s.Step()
	}
	return 0
}

func (h *Harness) vt() time.Duration {
	if h.s != nil {
		return h.s.VT()
	}
	return 0
}

type detIDs struct{ n atomic.Uint64 }

func (g *detIDs) NewIDs(ctx context.Context) (trace.TraceID, trace.SpanID) {
	v := g.n.Add(1)
	var t trace.TraceID
	var s trace.SpanID
	for i := 0; i < 8; i++ {
		t[i] = byte(v >> (8 * i))
		s[i] = byte(v >> (8 * i))
	}
	t[15] = 1
	s[7] |= 0x80
	return t, s
}
func (g *detIDs) NewSpanID(ctx context.Context, traceID trace.TraceID) trace.SpanID {
	v := g.n.Add(1)
	var s trace.SpanID
	for i := 0; i < 8; i++ {
		s[i] = byte(v >> (8 * i))
	}
	s[7] |= 0x80
	return s
}

// lock / unlock: all harness state is guarded by the simulator's mutex.
func (h *Harness) lock()   { h.s.mu.Lock() }
func (h *Harness) unlock() { h.s.mu.Unlock() }

func (h *Harness) fault(kind string) { h.faults[kind]++ }
func (h *Harness) probe(kind string) { h.probes[kind]++ }

// setup creates the real processor through its public factory, wired to the
// simulated consumer, a recording tracer provider and nop telemetry.
func (h *Harness) setup() error {
	sc := h.sc
	h.rec = tracetest.NewSpanRecorder()
	tp := sdktrace.NewTracerProvider(sdktrace.WithSpanProcessor(h.rec), sdktrace.WithIDGenerator(&detIDs{}), sdktrace.WithSampler(sdktrace.AlwaysSample()))
	h.tracer = tp.Tracer("harness")
	f := cbp.NewFactory()
	cfg := f.CreateDefaultConfig().(*cbp.Config)
	cfg.SendBatchSize = sc.Cfg.SendBatchSize
	cfg.SendBatchMaxSize = sc.Cfg.SendBatchMaxSize
	cfg.Timeout = sc.Cfg.Timeout
	cfg.MetadataKeys = sc.Cfg.MetadataKeys
	cfg.MetadataCardinalityLimit = sc.Cfg.Limit
	cfg.MaxConcurrency = sc.Cfg.MaxConcurrency
	cfg.EarlyReturn = sc.Cfg.EarlyReturn
	if err := cfg.Validate(); err != nil {
		return fmt.Errorf("generated an invalid configuration: %w", err)
	}
	set := processortest.NewNopSettings(f.Type())
	set.TelemetrySettings.TracerProvider = tp
	ctx := context.Background()
	switch sc.Signal {
	case "traces":
		next, _ := consumer.NewTraces(func(ctx context.Context, td ptrace.Traces) error { return h.mockConsume(ctx, td) }, consumer.WithCapabilities(consumer.Capabilities{MutatesData: true}))
		p, err := f.CreateTraces(ctx, set, cfg, next)
		if err != nil {
			return err
		}
		h.proc = tracesProc{p, p}
	case "logs":
		next, _ := consumer.NewLogs(func(ctx context.Context, ld plog.Logs) error { return h.mockConsume(ctx, ld) }, consumer.WithCapabilities(consumer.Capabilities{MutatesData: true}))
		p, err := f.CreateLogs(ctx, set, cfg, next)
		if err != nil {
			return err
		}
		h.proc = logsProc{p, p}
	default:
		next, _ := consumer.NewMetrics(func(ctx context.Context, md pmetric.Metrics) error { return h.mockConsume(ctx, md) }, consumer.WithCapabilities(consumer.Capabilities{MutatesData: true}))
		p, err := f.CreateMetrics(ctx, set, cfg, next)
		if err != nil {
			return err
		}
		h.proc = metricsProc{p, p}
	}
	return h.proc.Start(ctx, componenttest.NewNopHost())
}

// prepare builds request data and the submitted-item table.
func (h *Harness) prepare() {
	h.seen = map[string]bool{}
	h.ownerOf = map[int64]*ReqState{}
	h.expCount = map[int64]int{}
	h.inflight = map[string]int{}
	for _, cp := range h.sc.Callers {
		for _, rp := range cp.Reqs {
			r := &ReqState{Plan: rp, AdmitStep: -1}
			r.data = buildData(h.sc.Signal, rp)
			r.Items, _ = observe(r.data)
			if rp.Combo >= 0 {
				r.ComboKey = h.sc.Combos[rp.Combo].Key
			}
			for _, it := range r.Items {
				h.ownerOf[it.Vid] = r
			}
			h.reqs = append(h.reqs, r)
		}
	}
}

// startReq creates (or reuses) the request context. Called by the caller task.
func (h *Harness) startReq(r *ReqState, prev *ReqState) {
	rp := r.Plan
	if rp.CtxKind == "shared" && prev != nil && prev.Ctx != nil {
		r.Ctx = prev.Ctx
		r.Started = true
		return
	}
	c := &CtxState{ID: len(h.ctxs), Kind: rp.CtxKind, CancelStep: -1, SpanEndStep: -1, CreatedStep: h.stepNow(), CreatedVT: h.vt()}
	if c.Kind == "shared" {
		c.Kind = "background"
	}
	base := context.WithValue(context.Background(), markerKey{}, c.ID)
	if rp.Combo >= 0 {
		base = client.NewContext(base, client.Info{Metadata: client.NewMetadata(h.sc.Combos[rp.Combo].MD)})
	}
	switch c.Kind {
	case "cancel":
		base, c.cancel = context.WithCancel(base)
	case "deadline":
		base, c.cancel = context.WithTimeout(base, rp.Deadline)
		c.DeadlineVT = c.CreatedVT + rp.Deadline
	default:
		c.cancel = func() {}
	}
	c.ctx, c.span = h.tracer.Start(base, fmt.Sprintf("request-ctx-%d", c.ID))
	c.SpanID = c.span.SpanContext().SpanID()
	h.ctxs = append(h.ctxs, c)
	r.Ctx = c
	r.Started = true
}

// accepted: the request got into the processor's queue. In controlled mode
// that is observed at the consume.sent hook; in free-running mode (no hooks)
// it is inferred from the result: nil or the failure of an export.
func (h *Harness) accepted(r *ReqState) bool {
	if !h.race {
		return r.Enqueued
	}
	return r.Returned && r.Plan.NItems > 0 && (r.Err == nil || h.wrapsAnyFailure(r.Err))
}

func isCtxErr(err error) bool {
	return errors.Is(err, context.Canceled) || errors.Is(err, context.DeadlineExceeded)
}

// mockConsume is the simulated next consumer (a stub). Its behaviour for this
// call - latency, failure, whether it honours its context - is drawn from
// the tape's fault stream by the export goroutine while it is the running
// task.
func (h *Harness) mockConsume(ctx context.Context, data any) error {
	items, empties := observe(data)
	ex := &ExportState{Marker: -1, Items: items, Empties: empties}
	if v, ok := ctx.Value(markerKey{}).(int); ok {
		ex.Marker = v
	}
	info := client.FromContext(ctx)
	ex.MD = map[string][]string{}
	for _, k := range h.sc.Cfg.MetadataKeys {
		ex.MD[k] = info.Metadata.Get(k)
	}
	ex.SpanID = trace.SpanFromContext(ctx).SpanContext().SpanID()
	ex.DoneAtEntry = ctx.Err() != nil

	h.lock()
	ex.ID = len(h.exports)
	h.exports = append(h.exports, ex)
	ex.InvokeStep, ex.InvokeVT = h.stepNow(), h.vt()
	if h.s.current != nil && !h.race {
		ex.Task = h.s.current.Name
	}
	combo := h.comboOfItems(items)
	h.inflight[combo]++
	h.inflightAll++
	h.onExportInvoke(ex, combo)
	h.s.logf("  [step %d vt %v] export#%d invoked: %d items, marker=%d", ex.InvokeStep, ex.InvokeVT, ex.ID, len(items), ex.Marker)
	h.unlock()
	h.progress.Add(1)

	h.s.Hook("mock.enter")

	// behaviour of this call
	h.lock()
	k := h.sc.knobs
	var lat time.Duration
	if pct(h.tape, core.Fault, k.LatencyPct) {
		lats := []time.Duration{h.sc.Unit / 2, h.sc.Unit, 2 * h.sc.Unit, 5 * h.sc.Unit, 50 * h.sc.Unit}
		lat = lats[h.tape.Weighted(core.Fault, 4, 4, 3, 2, 1)]
		h.fault("export_latency")
	}
	failKind := 0
	if pct(h.tape, core.Fault, k.FailPct) {
		failKind = 1 + h.tape.Draw(core.Fault, 2)
	}
	ex.Latency = lat
	if lat > h.maxLatency {
		h.maxLatency = lat
	}
	h.unlock()

	var ret error
	switch {
	case h.sc.HonourCtx && ctx.Err() != nil:
		ret = ctx.Err()
		ex.CtxErr = true
	case lat > 0:
		tm := time.NewTimer(lat)
		if h.sc.HonourCtx {
			select {
			case <-tm.C:
			case <-ctx.Done():
				tm.Stop()
				ret = ctx.Err()
				ex.CtxErr = true
			}
		} else {
			<-tm.C
		}
	}
	h.s.Hook("mock.exit")
	if ret == nil && failKind != 0 {
		ex.Failure = &exportErr{export: ex.ID}
		ret = ex.Failure
		if failKind == 2 {
			ret = consumererror.NewPermanent(ex.Failure)
		}
	}
	// The next consumer owns the data from the moment it is called: a
	// downstream that keeps working on it (queueing exporter, another batch
	// processor with early_return) may move it away during the call or from a
	// goroutine of its own after returning. Legal under the collector's
	// data-ownership rules; the processor must not touch the request any more.
	if h.sc.DownstreamKeepsData {
		if h.race {
			h.async.Add(1)
			go func() {
				defer h.async.Done()
				time.Sleep(time.Nanosecond)
				consumeData(data)
			}()
		} else {
			consumeData(data)
		}
	}
	h.lock()
	if ex.CtxErr {
		h.fault("export_ctx_cancelled")
		if lat > 0 {
			h.fault("export_blocks_until_ctx_done")
		}
	} else if failKind == 1 {
		h.fault("export_error_transient")
	} else if failKind == 2 {
		h.fault("export_error_permanent")
	}
	ex.Err = ret
	ex.Returned = true
	ex.ReturnStep, ex.ReturnVT = h.stepNow(), h.vt()
	h.inflight[combo]--
	h.inflightAll--
	h.s.logf("  [step %d vt %v] export#%d returns %v", ex.ReturnStep, ex.ReturnVT, ex.ID, ret)
	h.unlock()
	h.progress.Add(1)
	return ret
}

// comboOfItems returns the combination of the (first known) owner.
func (h *Harness) comboOfItems(items []ItemObs) string {
	for _, it := range items {
		if r := h.ownerOf[it.Vid]; r != nil {
			return r.ComboKey
		}
	}
	return ""
}

// callerBody is the workload of one caller task.
func (h *Harness) callerBody(t *Task, ci int, cp *CallerPlan, mine []*ReqState) {
	s := h.s
	defer func() {
		h.lock()
		h.callersLeft--
		h.unlock()
		h.progress.Add(1)
	}()
	if d := cp.StartAt - s.VT(); d > 0 {
		time.Sleep(d)
	}
	var prev *ReqState
	endSpan := func(c *CtxState) {
		if c != nil && c.SpanEndStep < 0 {
			c.span.End()
			c.SpanEndStep = h.stepNow()
		}
	}
	for i, r := range mine {
		if !s.Park("caller.req") {
			return
		}
		h.lock()
		if h.ShutdownReturned {
			// no method of a component is called after Shutdown has returned
			r.Skipped = true
			h.unlock()
			continue
		}
		if prev != nil && prev.Ctx != nil && !(r.Plan.CtxKind == "shared") {
			endSpan(prev.Ctx)
		}
		h.startReq(r, prev)
		s.logf("  [step %d vt %v] caller%d req#%d context ctx%d (%s)", h.stepNow(), h.vt(), ci, r.Plan.ID, r.Ctx.ID, r.Ctx.Kind)
		h.unlock()
		prev = r
		if !s.Park("caller.call") {
			return
		}
		h.lock()
		if h.ShutdownReturned {
			r.Skipped = true
			h.unlock()
			continue
		}
		if h.ShutdownInvoked {
			h.probe("consume_called_while_shutdown_in_progress")
		}
		r.Invoked = true
		r.InvokeStep, r.InvokeVT = h.stepNow(), h.vt()
		if t != nil {
			t.Req = r
		}
		s.logf("  [step %d vt %v] caller%d Consume(req#%d, %d items, ctx%d) invoked", r.InvokeStep, r.InvokeVT, ci, r.Plan.ID, r.Plan.NItems, r.Ctx.ID)
		ctx := r.Ctx.ctx
		h.unlock()
		h.progress.Add(1)

		err := h.proc.consume(ctx, r.data)

		h.lock()
		r.Returned = true
		r.Err = err
		r.CtxErrAtReturn = ctx.Err()
		r.ReturnStep, r.ReturnVT = h.stepNow(), h.vt()
		if r.AdmitStep < 0 {
			r.AdmitStep = r.ReturnStep
		}
		if h.sc.Cfg.EarlyReturn && err == nil && r.Plan.NItems > 0 && !r.Enqueued {
			r.Enqueued = true
			r.EnqStep, r.EnqVT = r.ReturnStep, r.ReturnVT
		}
		s.logf("  [step %d vt %v] caller%d Consume(req#%d) returns %v", r.ReturnStep, r.ReturnVT, ci, r.Plan.ID, err)
		h.unlock()
		h.progress.Add(1)
		_ = i
		if !s.Park("caller.returned") {
			return
		}
	}
	h.lock()
	if prev != nil {
		endSpan(prev.Ctx)
	}
	h.unlock()
}

// run executes the scenario inside the current synctest bubble (controlled
// mode): the root goroutine is the scheduler.
func (h *Harness) run() {
	s := newSim(h.tape, h.opts.Render)
	h.s = s
	s.stalling = h.sc.Clock == "stalling"
	s.Policy = h.sc.Policy
	cbp.VerifHook = s.Hook
	runtime.SetVerifSelectRand(s.selectRand)
	defer func() {
		cbp.VerifHook = nil
		runtime.SetVerifSelectRand(nil)
	}()
	h.prepare()
	if err := h.setup(); err != nil {
		h.violate("INFRA", "setup", err.Error(), nil)
		return
	}
	synctest.Wait()

	s.onPark = func(t *Task, site string) {
		if t.Role == "loop" && site == "loop.timer" {
			h.ticks++
		}
		r := t.Req
		if t.Role != "caller" || r == nil || r.Returned {
			return
		}
		switch site {
		case "consume.send":
			if r.AdmitStep < 0 {
				r.AdmitStep = s.step.Load()
			}
		case "consume.sent":
			if !r.Enqueued {
				r.Enqueued = true
				r.EnqStep, r.EnqVT = s.step.Load(), s.VT()
			}
		}
	}

	// tasks, in a fixed creation order
	h.callersLeft = len(h.sc.Callers)
	idx := 0
	for ci, cp := range h.sc.Callers {
		mine := h.reqs[idx : idx+len(cp.Reqs)]
		idx += len(cp.Reqs)
		ci, cp := ci, cp
		s.Go(fmt.Sprintf("caller%d", ci), "caller", nil, func(t *Task) { h.callerBody(t, ci, cp, mine) })
		synctest.Wait()
	}
	for _, r := range h.reqs {
		if r.Plan.CtxKind != "cancel" {
			continue
		}
		r := r
		guard := func() bool {
			return r.Started && r.Ctx.CancelStep < 0 && h.callersLeft > 0 && s.step.Load() >= r.Ctx.CreatedStep+int64(r.Plan.CancelNotBefore)
		}
		s.Go(fmt.Sprintf("cancel-req%d", r.Plan.ID), "cancel", guard, func(t *Task) {
			h.lock()
			c := r.Ctx
			c.CancelStep, c.CancelVT = h.stepNow(), h.vt()
			if !r.Returned {
				h.fault("caller_cancel")
				if r.Enqueued {
					h.probe("cancel_after_enqueue")
				} else if r.Invoked {
					h.probe("cancel_between_invoke_and_enqueue")
				} else {
					h.probe("cancel_before_invoke")
				}
			}
			s.logf("  [step %d vt %v] cancel ctx%d (req#%d)", c.CancelStep, c.CancelVT, c.ID, r.Plan.ID)
			h.unlock()
			c.cancel()
			h.progress.Add(1)
		})
		synctest.Wait()
	}
	limbo := func() bool {
		for _, r := range h.reqs {
			if r.Invoked && !r.Enqueued && !r.Returned {
				return true
			}
		}
		return false
	}
	sdGuard := func() bool {
		if h.callersLeft == 0 {
			return true
		}
		if h.sc.ShutdownNotBefore < 0 {
			return false
		}
		// Shutdown may be called at any moment, also while Consume calls are
		// in progress (between their invocation and the enqueue)
		if s.step.Load() >= int64(h.sc.ShutdownNotBefore) {
			if limbo() {
				h.seenLimbo = true
			}
			return true
		}
		return false
	}
	s.Go("shutdown", "shutdown", sdGuard, func(t *Task) {
		h.lock()
		h.shutdownStarted = true
		h.ShutdownInvoked = true
		h.ShutdownInvokeStep, h.ShutdownInvokeVT = h.stepNow(), h.vt()
		if h.callersLeft > 0 {
			h.fault("shutdown_while_callers_active")
		}
		for _, r := range h.reqs {
			if r.Invoked && !r.Enqueued && !r.Returned {
				h.fault("shutdown_while_a_consume_call_is_in_progress")
				break
			}
		}
		s.logf("  [step %d vt %v] Shutdown invoked (%d callers still active)", h.ShutdownInvokeStep, h.ShutdownInvokeVT, h.callersLeft)
		h.unlock()
		h.progress.Add(1)
		_ = h.proc.Shutdown(context.Background())
		h.lock()
		h.ShutdownReturned = true
		h.ShutdownReturnStep, h.ShutdownReturnVT = h.stepNow(), h.vt()
		h.onShutdownReturn()
		s.logf("  [step %d vt %v] Shutdown returned", h.ShutdownReturnStep, h.ShutdownReturnVT)
		h.unlock()
		h.progress.Add(1)
	})
	synctest.Wait()

	s.invariant = func(quiescent bool) {
		h.lock()
		h.stepInvariants(quiescent)
		h.unlock()
	}
	var maxStart, maxDeadline time.Duration
	for _, cp := range h.sc.Callers {
		if cp.StartAt > maxStart {
			maxStart = cp.StartAt
		}
		for _, rp := range cp.Reqs {
			if rp.Deadline > maxDeadline {
				maxDeadline = rp.Deadline
			}
		}
	}
	horizon := maxStart + maxDeadline + 60*h.sc.Unit + 3*h.sc.Cfg.Timeout + time.Second
	finished := func() bool {
		h.lock()
		defer h.unlock()
		return h.callersLeft == 0 && h.ShutdownReturned
	}
	h.end = s.Run(finished, func() int64 { return h.progress.Load() }, horizon)
	if s.stalls > 0 {
		h.faults["stall_or_clock_jump"] += s.stalls
	}
	s.Finish()
	for _, c := range h.ctxs {
		c.cancel()
	}
	if h.end == endDone {
		synctest.Wait()
	}
	h.lock()
	for _, c := range h.ctxs {
		if c.SpanEndStep < 0 {
			c.span.End()
			c.SpanEndStep = h.stepNow() + 1
		}
	}
	h.finalOracles()
	h.endVT = h.vt()
	h.unlock()
}

// consumeData is what an owner of the data may do with it: move everything
// out (into its own queue or batch).
func consumeData(data any) {
	switch d := data.(type) {
	case ptrace.Traces:
		d.ResourceSpans().MoveAndAppendTo(ptrace.NewTraces().ResourceSpans())
	case plog.Logs:
		d.ResourceLogs().MoveAndAppendTo(plog.NewLogs().ResourceLogs())
	case pmetric.Metrics:
		d.ResourceMetrics().MoveAndAppendTo(pmetric.NewMetrics().ResourceMetrics())
	}
}
