//go:build race

package batchsim

const raceEnabled = true
