package batchsim

import (
	"context"
	"fmt"
	"os"
	"path/filepath"
	"runtime"
	"strings"
	"sync"
	"testing"
	"testing/synctest"
	"time"

	"verif/core"
)

// Engine implements core.Engine for the batch processor.
type Engine struct {
	T       *testing.T
	RaceLog string // GORACE log_path prefix (free-running mode)
	raceOff int64
}

func (e *Engine) Name() string { return "batchsim" }

func (e *Engine) Facts() map[string]string {
	return map[string]string{
		"toolchain":  runtime.Version(),
		"tags":       "verif",
		"numcpu":     fmt.Sprint(runtime.NumCPU()),
		"gomaxprocs": fmt.Sprint(runtime.GOMAXPROCS(0)),
		"race_build": fmt.Sprint(raceEnabled),
	}
}

// Run executes one simulated run inside a fresh synctest bubble.
func (e *Engine) Run(tape *core.Tape, o core.RunOpts) *core.Outcome {
	out := &core.Outcome{Faults: map[string]int{}, Probes: map[string]int{}}
	h := &Harness{t: e.T, tape: tape, opts: o, race: o.Race, faults: out.Faults, probes: out.Probes}
	h.sc = genScenario(tape, o.Property, runtime.NumCPU())
	if o.Race {
		h.sc.Clock = "free-running"
	}
	var panicMsg string
	// The bubble is started from a goroutine of its own: when the race
	// detector fires, the testing package fails the bubble's T and
	// synctest.Test ends with t.FailNow(), i.e. runtime.Goexit of the calling
	// goroutine - which must not be the worker loop.
	done := make(chan struct{})
	go func() {
		defer close(done)
		defer func() {
			if r := recover(); r != nil {
				panicMsg = fmt.Sprint(r)
			}
		}()
		synctest.Test(e.T, func(t *testing.T) {
			if o.Race {
				h.runFree()
			} else {
				h.run()
			}
		})
	}()
	<-done
	for _, v := range h.viol {
		if v.Property == "INFRA" {
			out.Infra = v.Clause + ": " + v.Detail
			return out
		}
	}
	if panicMsg != "" {
		switch {
		case strings.Contains(panicMsg, "blocked goroutines remain"):
			if h.end == endDone {
				h.violate("C11", "no-leak", "after every Consume call and Shutdown had returned, goroutines of the processor were still blocked: "+leftovers(), nil)
			}
		case strings.Contains(panicMsg, "all goroutines in bubble are blocked"):
			h.violate("C11", "no-deadlock", "every goroutine is blocked and no timer is pending: "+leftovers(), nil)
		default:
			out.Infra = "panic in bubble: " + panicMsg
			return out
		}
	}
	if o.Race && e.RaceLog != "" {
		if rep := e.newRaceReport(); rep != "" {
			if strings.Contains(rep, "concurrentbatchprocessor") {
				h.violate("C11", "data-race", rep, nil)
			} else {
				out.Infra = "race report that does not involve the processor package:\n" + rep
				return out
			}
		}
	}
	out.Violations = h.viol
	if h.s != nil {
		out.Steps = int(h.s.Step())
		out.SimTimeNs = int64(h.endVT)
		out.Trace = h.s.trace
		sig := core.NewHash().Int(int64(h.s.sigHash.Sum()))
		lh := core.NewHash().Int(int64(h.s.logHash.Sum()))
		for _, v := range h.viol {
			lh.Str(v.Property).Str(v.Clause)
		}
		lh.Int(int64(len(h.exports))).Int(int64(h.s.Step()))
		out.Signature = sig.Sum()
		out.LogHash = lh.Sum()
		if h.s.foreignSelects > 0 {
			out.Probes["select_outside_running_task"] += h.s.foreignSelects
		}
		out.Probes["select_decisions"] += h.s.selectDraws
	}
	out.NonTrivial = h.probes["merged_batch"] > 0 || h.probes["request_split_over_batches"] > 0
	if o.Render {
		out.Scenario = h.sc
	}
	return out
}

// leftovers renders the goroutines of the package under test that still exist.
func leftovers() string {
	buf := make([]byte, 1<<20)
	n := runtime.Stack(buf, true)
	var keep []string
	for _, g := range strings.Split(string(buf[:n]), "\n\n") {
		if strings.Contains(g, "concurrentbatchprocessor") && strings.Contains(g, "synctest") {
			lines := strings.Split(g, "\n")
			if len(lines) > 7 {
				lines = lines[:7]
			}
			keep = append(keep, strings.Join(lines, " | "))
		}
		if len(keep) >= 4 {
			break
		}
	}
	return strings.Join(keep, " ;; ")
}

func (e *Engine) newRaceReport() string {
	matches, _ := filepath.Glob(e.RaceLog + ".*")
	var sb strings.Builder
	var total int64
	for _, m := range matches {
		b, err := os.ReadFile(m)
		if err != nil {
			continue
		}
		total += int64(len(b))
		sb.Write(b)
	}
	if total <= e.raceOff {
		return ""
	}
	all := sb.String()
	rep := all[e.raceOff:]
	e.raceOff = total
	if len(rep) > 6000 {
		rep = rep[:6000] + "\n...(truncated)"
	}
	return rep
}

// runFree is the free-running mode: same workload, faults and fake clock, but
// no hooks and no scheduler - goroutines interleave as the Go runtime decides
// on all Ps, so that the race detector sees the real happens-before relation.
func (h *Harness) runFree() {
	s := newSim(h.tape, h.opts.Render)
	s.free = true
	h.s = s
	h.prepare()
	if err := h.setup(); err != nil {
		h.violate("INFRA", "setup", err.Error(), nil)
		return
	}
	h.callersLeft = len(h.sc.Callers)
	var wg sync.WaitGroup
	idx := 0
	for ci, cp := range h.sc.Callers {
		mine := h.reqs[idx : idx+len(cp.Reqs)]
		idx += len(cp.Reqs)
		ci, cp := ci, cp
		wg.Add(1)
		go func() {
			defer wg.Done()
			h.callerBody(nil, ci, cp, mine)
		}()
	}
	// cancellations at tape-chosen virtual instants
	stop := make(chan struct{})
	for _, r := range h.reqs {
		if r.Plan.CtxKind != "cancel" {
			continue
		}
		r := r
		at := time.Duration(r.Plan.CancelNotBefore) * h.sc.Unit / 8
		go func() {
			tm := time.NewTimer(at)
			defer tm.Stop()
			for {
				select {
				case <-stop:
					return
				case <-tm.C:
				}
				h.lock()
				started := r.Started
				var c *CtxState
				if started {
					c = r.Ctx
					if c.CancelStep < 0 {
						c.CancelStep, c.CancelVT = 0, h.vt()
						if !r.Returned {
							h.fault("caller_cancel")
						}
					}
				}
				h.unlock()
				if started {
					c.cancel()
					return
				}
				tm.Reset(h.sc.Unit / 4)
			}
		}()
	}
	allDone := make(chan struct{})
	go func() {
		wg.Wait()
		h.lock()
		h.shutdownStarted = true
		h.ShutdownInvoked = true
		h.ShutdownInvokeVT = h.vt()
		h.unlock()
		_ = h.proc.Shutdown(context.Background())
		h.lock()
		h.ShutdownReturned = true
		h.ShutdownReturnVT = h.vt()
		h.onShutdownReturn()
		h.unlock()
		close(allDone)
	}()
	limit := 200*h.sc.Unit + 20*h.sc.Cfg.Timeout + time.Duration(h.sc.NReqs+1)*60*h.sc.Unit + 10*time.Second
	select {
	case <-allDone:
		h.end = endDone
		h.async.Wait()
	case <-time.After(limit):
		h.end = endDeadlock
	}
	close(stop)
	h.lock()
	ctxs := append([]*CtxState(nil), h.ctxs...)
	h.unlock()
	for _, c := range ctxs {
		c.cancel()
	}
	if h.end == endDone {
		synctest.Wait()
	}
	h.lock()
	for _, c := range h.ctxs {
		if c.SpanEndStep < 0 {
			c.span.End()
			c.SpanEndStep = 1
		}
	}
	h.finalOracles()
	h.endVT = h.vt()
	h.unlock()
}
