module verif/core

go 1.23.0
