// Package core is the part shared by the two simulators: the choice tape
// (one integer decides everything), the tape shrinker, the result / replay
// file formats and small helpers. It depends on nothing but the standard
// library.
package core

import (
	"encoding/binary"
	"hash/fnv"
)

// Stream names one of the independent choice streams of a tape, so that
// shrinking one kind of choice does not shift the meaning of the others.
type Stream int

const (
	Gen   Stream = iota // generated workload / inputs
	Cfg                 // configuration and option swarm
	Sched               // scheduler picks and select order
	Fault               // injected faults
	Ext                 // features added after the first witnesses were recorded: a replay file without this stream reads zeros, i.e. "feature off", and keeps its meaning
	NStreams
)

var StreamNames = [NStreams]string{"gen", "cfg", "sched", "fault", "ext"}

// splitmix64: tiny, fast, good enough, and fully specified here so that a
// seed means the same thing under every toolchain.
type splitmix struct{ s uint64 }

func (r *splitmix) next() uint64 {
	r.s += 0x9e3779b97f4a7c15
	z := r.s
	z = (z ^ (z >> 30)) * 0xbf58476d1ce4e5b9
	z = (z ^ (z >> 27)) * 0x94d049bb133111eb
	return z ^ (z >> 31)
}

// Mix derives a sub-seed from a seed and a list of integers.
func Mix(seed uint64, xs ...uint64) uint64 {
	r := splitmix{s: seed}
	v := r.next()
	for _, x := range xs {
		r.s = v ^ (x * 0x9e3779b97f4a7c15)
		v = r.next()
	}
	return v
}

// Tape is the only source of choices in a simulated run. In generate mode
// each stream is a PRNG seeded from (seed, stream); every value handed out is
// recorded (already reduced modulo the bound that was asked for). In replay
// mode the recorded values are handed out again (reduced modulo the bound in
// force now) and 0 once a stream is exhausted, so every []uint32 is a valid
// tape: that is what makes shrinking by deleting and lowering values sound.
type Tape struct {
	Seed   uint64
	replay bool
	rng    [NStreams]splitmix
	src    [NStreams][]uint32
	pos    [NStreams]int
	rec    [NStreams][]uint32
	// Overrun counts draws past the end of a replayed stream.
	Overrun int
}

// NewTape returns a generating tape for the seed.
func NewTape(seed uint64) *Tape {
	t := &Tape{Seed: seed}
	for i := range t.rng {
		t.rng[i] = splitmix{s: Mix(seed, uint64(i)+1)}
	}
	return t
}

// ReplayTape returns a tape that replays the given streams.
func ReplayTape(seed uint64, streams [NStreams][]uint32) *Tape {
	t := &Tape{Seed: seed, replay: true}
	t.src = streams
	return t
}

// Draw returns a value in [0,n). n <= 1 returns 0 without consuming anything.
func (t *Tape) Draw(s Stream, n int) int {
	if n <= 1 {
		return 0
	}
	var v uint32
	if t.replay {
		if t.pos[s] < len(t.src[s]) {
			v = t.src[s][t.pos[s]] % uint32(n)
		} else {
			t.Overrun++
		}
		t.pos[s]++
	} else {
		v = uint32(t.rng[s].next()>>16) % uint32(n)
	}
	t.rec[s] = append(t.rec[s], v)
	return int(v)
}

// Chance is true with probability num/den; false is the simple (0) outcome.
func (t *Tape) Chance(s Stream, num, den int) bool {
	if num <= 0 {
		return false
	}
	if num >= den {
		return true
	}
	// value 0 must be the simple outcome => true for the top num values
	return t.Draw(s, den) >= den-num
}

// Weighted picks an index with the given weights; index 0 should be the
// simplest alternative.
func (t *Tape) Weighted(s Stream, weights ...int) int {
	total := 0
	for _, w := range weights {
		total += w
	}
	if total <= 0 {
		return 0
	}
	v := t.Draw(s, total)
	for i, w := range weights {
		if v < w {
			return i
		}
		v -= w
	}
	return len(weights) - 1
}

// Range returns a value in [lo,hi].
func (t *Tape) Range(s Stream, lo, hi int) int {
	if hi <= lo {
		return lo
	}
	return lo + t.Draw(s, hi-lo+1)
}

// Recorded returns the values consumed so far.
func (t *Tape) Recorded() [NStreams][]uint32 {
	var out [NStreams][]uint32
	for i := range t.rec {
		out[i] = append([]uint32(nil), t.rec[i]...)
	}
	return out
}

// Consumed reports how many draws were made on a stream.
func (t *Tape) Consumed(s Stream) int { return len(t.rec[s]) }

// Hash64 is FNV-1a over the given byte strings.
type Hash64 struct{ h uint64 }

func NewHash() *Hash64 { return &Hash64{h: 14695981039346656037} }
func (h *Hash64) Bytes(b []byte) *Hash64 {
	for _, c := range b {
		h.h ^= uint64(c)
		h.h *= 1099511628211
	}
	return h
}
func (h *Hash64) Str(s string) *Hash64 {
	for i := 0; i < len(s); i++ {
		h.h ^= uint64(s[i])
		h.h *= 1099511628211
	}
	h.h ^= 0xff
	h.h *= 1099511628211
	return h
}
func (h *Hash64) Int(v int64) *Hash64 {
	var b [8]byte
	binary.LittleEndian.PutUint64(b[:], uint64(v))
	return h.Bytes(b[:])
}
func (h *Hash64) Sum() uint64 { return h.h }

// HashBytes is a convenience wrapper over hash/fnv (64a).
func HashBytes(b []byte) uint64 {
	f := fnv.New64a()
	_, _ = f.Write(b)
	return f.Sum64()
}
