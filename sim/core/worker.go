package core

import (
	"encoding/json"
	"flag"
	"fmt"
	"os"
	"sort"
	"strings"
	"time"
)

// Violation is one failed oracle clause in one simulated run.
type Violation struct {
	Property string `json:"property"`
	Clause   string `json:"clause"`
	Detail   string `json:"detail"`
	// Features names the specific input / option / call-site facts of the
	// failing run that a known-findings predicate may refer to.
	Features map[string]string `json:"features,omitempty"`
	Step     int               `json:"step"`
}

func (v Violation) Key() string { return v.Property + "/" + v.Clause }

// Outcome is what one simulated run reports.
type Outcome struct {
	Violations []Violation
	Signature  uint64 // abstraction of what the run did (distinctness measure)
	NonTrivial bool
	Faults     map[string]int // fault kind -> times it actually fired
	Probes     map[string]int // rare condition -> times reached
	SimTimeNs  int64
	Steps      int
	LogHash    uint64   // hash of the full event log (determinism check)
	Scenario   any      // rendered scenario, for samples / replay files
	Trace      []string // rendered schedule + fault trace
	Infra      string   // non-empty: infrastructure trouble (never a violation)
}

// RunOpts are per-run options given to the engine.
type RunOpts struct {
	Property string
	Tier     string
	Render   bool // fill Scenario and Trace
	Race     bool // free-running mode (batchsim, streamsim C16)
}

// Engine is implemented by batchsim and streamsim.
type Engine interface {
	Name() string
	// Run executes one simulated run driven only by the tape.
	Run(t *Tape, o RunOpts) *Outcome
	// Build facts recorded in replay files and evidence.
	Facts() map[string]string
}

// ReplayFile is the on-disk form of a (minimised) violation.
type ReplayFile struct {
	Property   string            `json:"property"`
	Clause     string            `json:"clause"`
	Engine     string            `json:"engine"`
	Facts      map[string]string `json:"build_facts"`
	Seed       uint64            `json:"seed"`
	Race       bool              `json:"race_mode,omitempty"`
	Tape       map[string][]uint32 `json:"tape"`
	Detail     string            `json:"violation"`
	Features   map[string]string `json:"features,omitempty"`
	Step       int               `json:"step"`
	Scenario   any               `json:"scenario,omitempty"`
	Trace      []string          `json:"schedule_and_fault_trace,omitempty"`
	ShrinkInfo string            `json:"shrink,omitempty"`
	Tier       string            `json:"tier,omitempty"`
	// Generate: no tape was recorded (the process died); replay regenerates
	// the run from the seed.
	Generate bool `json:"generate_from_seed,omitempty"`
	// Flaky: the code under test itself behaved nondeterministically for this
	// run (e.g. it depends on Go map iteration order, which no seam controls):
	// the violation was observed on a real execution and reproduced in at least
	// one of several fresh processes, but not in every one. Replay retries.
	Flaky bool `json:"code_under_test_nondeterministic,omitempty"`
}

func StreamsToMap(s Streams) map[string][]uint32 {
	m := map[string][]uint32{}
	for i := range s {
		v := s[i]
		if v == nil {
			v = []uint32{}
		}
		m[StreamNames[i]] = v
	}
	return m
}

func MapToStreams(m map[string][]uint32) Streams {
	var s Streams
	for i := range s {
		s[i] = m[StreamNames[i]]
	}
	return s
}

// WorkerResult is what a worker process writes for the driver.
type WorkerResult struct {
	Engine      string            `json:"engine"`
	Property    string            `json:"property"`
	Worker      int               `json:"worker"`
	Runs        int               `json:"runs"`
	FirstSeed   uint64            `json:"first_seed"`
	LastSeed    uint64            `json:"last_seed"`
	WallS       float64           `json:"wall_s"`
	SimTimeNs   int64             `json:"sim_time_ns"`
	Steps       int64             `json:"steps"`
	Faults      map[string]int    `json:"faults"`
	Probes      map[string]int    `json:"probes"`
	Signatures  []uint64          `json:"signatures_nontrivial"`
	AllSigs     int               `json:"distinct_signatures_all"`
	Samples     []any             `json:"samples"`
	Violations  []ReplayFile      `json:"violations"`
	ViolCount   map[string]int    `json:"violation_counts"`
	Rechecks    int               `json:"determinism_rechecks"`
	Mismatches  int               `json:"determinism_mismatches"`
	Infra       []string          `json:"infra"`
	Facts       map[string]string `json:"facts"`
	TimedOut    bool              `json:"stopped_by_time_budget"`
}

// RunSeed derives the seed of run i of a check.
func RunSeed(base uint64, prop string, i int) uint64 {
	return Mix(base, HashBytes([]byte(prop)), uint64(i))
}

var (
	fMode    = flag.String("mode", "", "run | replay | shrink | one")
	fProp    = flag.String("prop", "", "property id")
	fTier    = flag.String("tier", "quick", "quick | thorough")
	fSeed    = flag.Uint64("seed", 1, "VERIF_SEED")
	fWorker  = flag.Int("worker", 0, "worker index")
	fWorkers = flag.Int("workers", 1, "number of workers")
	fRuns    = flag.Int("runs", 100, "total runs over all workers")
	fMaxTime = flag.Duration("maxtime", 0, "wall-clock budget for this worker (0 = none)")
	fOut     = flag.String("out", "", "output file")
	fIn      = flag.String("in", "", "input replay file")
	fBudget  = flag.Duration("budget", 120*time.Second, "shrink budget")
	fRace    = flag.Bool("racemode", false, "free-running mode under the race detector")
	fSamples = flag.Int("samples", 2, "rendered samples to keep per worker")
	fIndex   = flag.Int("index", 0, "run index for -mode one")
	fMaxViol = flag.Int("maxviol", 6, "distinct violations to keep per worker")
)

// RaceMode reports whether the worker runs free-running / parallel runs under
// the race detector (-racemode). In that mode the testing package itself
// marks the test as failed when the detector fires; the engines read the
// detector's report instead, so that exit status is ignored.
func RaceMode() bool { return *fRace }

// Progress is bumped by engines so that a real-time watchdog can tell a
// stuck run from a slow one.
var Progress func()

func writeJSON(path string, v any) error {
	b, err := json.MarshalIndent(v, "", " ")
	if err != nil {
		return err
	}
	return os.WriteFile(path, b, 0o644)
}

func relevant(vs []Violation, prop string) []Violation {
	var out []Violation
	for _, v := range vs {
		if v.Property == prop {
			out = append(out, v)
		}
	}
	return out
}

// WorkerMain implements the command line shared by both engines. It returns
// the process exit code: 0 fine, 1 violation reproduced (replay mode only),
// 3 infrastructure trouble (2 is what the Go runtime uses for a crash).
func WorkerMain(e Engine) int {
	switch *fMode {
	case "run":
		return modeRun(e)
	case "replay":
		return modeReplay(e)
	case "shrink":
		return modeShrink(e)
	case "one":
		return modeOne(e)
	case "hashes":
		return modeHashes(e)
	}
	fmt.Fprintln(os.Stderr, "unknown -mode")
	return 3
}

func mkReplay(e Engine, t *Tape, out *Outcome, v Violation, o RunOpts) ReplayFile {
	return ReplayFile{
		Property: v.Property, Clause: v.Clause, Engine: e.Name(), Facts: e.Facts(),
		Seed: t.Seed, Race: o.Race, Tape: StreamsToMap(t.Recorded()), Detail: v.Detail,
		Features: v.Features, Step: v.Step, Scenario: out.Scenario, Trace: out.Trace, Tier: o.Tier,
	}
}

func modeRun(e Engine) int {
	prop := *fProp
	res := &WorkerResult{Engine: e.Name(), Property: prop, Worker: *fWorker,
		Faults: map[string]int{}, Probes: map[string]int{}, ViolCount: map[string]int{}, Facts: e.Facts()}
	start := time.Now()
	sigs := map[uint64]bool{}
	all := map[uint64]bool{}
	seenViol := map[string]bool{}
	opts := RunOpts{Property: prop, Tier: *fTier, Race: *fRace}
	first := true
	for i := *fWorker; i < *fRuns; i += *fWorkers {
		if *fMaxTime > 0 && time.Since(start) > *fMaxTime {
			res.TimedOut = true
			break
		}
		seed := RunSeed(*fSeed, prop, i)
		_ = os.WriteFile(*fOut+".cur", []byte(fmt.Sprintf("%d %d", i, seed)), 0o644)
		if first {
			res.FirstSeed = seed
			first = false
		}
		res.LastSeed = seed
		o := opts
		o.Render = len(res.Samples) < *fSamples && (i/(*fWorkers))%7 == 3
		tape := NewTape(seed)
		out := e.Run(tape, o)
		res.Runs++
		if out.Infra != "" {
			res.Infra = append(res.Infra, fmt.Sprintf("seed=%d run=%d: %s", seed, i, out.Infra))
			if len(res.Infra) > 20 {
				break
			}
			continue
		}
		res.SimTimeNs += out.SimTimeNs
		res.Steps += int64(out.Steps)
		for k, v := range out.Faults {
			res.Faults[k] += v
		}
		for k, v := range out.Probes {
			res.Probes[k] += v
		}
		all[out.Signature] = true
		if out.NonTrivial {
			sigs[out.Signature] = true
		}
		if o.Render && out.NonTrivial {
			res.Samples = append(res.Samples, map[string]any{"seed": seed, "run_index": i, "scenario": out.Scenario, "trace": out.Trace})
		}
		// determinism recheck on ~1% of the runs (never in free-running mode)
		if !o.Race && (i/(*fWorkers))%100 == 7 {
			t2 := NewTape(seed)
			out2 := e.Run(t2, opts)
			res.Rechecks++
			if out2.LogHash != out.LogHash {
				res.Mismatches++
				res.Infra = append(res.Infra, fmt.Sprintf("nondeterminism: seed=%d run=%d log hash %x vs %x", seed, i, out.LogHash, out2.LogHash))
			}
		}
		for _, v := range relevant(out.Violations, prop) {
			key := v.Key() + "|" + featKey(v.Features)
			res.ViolCount[v.Key()]++
			if seenViol[key] || len(res.Violations) >= *fMaxViol {
				continue
			}
			seenViol[key] = true
			// re-run with rendering so that the replay file is readable
			o2 := opts
			o2.Render = true
			t3 := NewTape(seed)
			out3 := e.Run(t3, o2)
			rf := mkReplay(e, t3, out3, v, o2)
			rf.ShrinkInfo = fmt.Sprintf("unshrunk; run index %d", i)
			res.Violations = append(res.Violations, rf)
		}
	}
	res.WallS = time.Since(start).Seconds()
	res.AllSigs = len(all)
	for s := range sigs {
		res.Signatures = append(res.Signatures, s)
	}
	sort.Slice(res.Signatures, func(i, j int) bool { return res.Signatures[i] < res.Signatures[j] })
	if err := writeJSON(*fOut, res); err != nil {
		fmt.Fprintln(os.Stderr, err)
		return 3
	}
	return 0
}

func featKey(m map[string]string) string {
	ks := make([]string, 0, len(m))
	for k, v := range m {
		ks = append(ks, k+"="+v)
	}
	sort.Strings(ks)
	return strings.Join(ks, ",")
}

func readReplay(path string) (*ReplayFile, error) {
	b, err := os.ReadFile(path)
	if err != nil {
		return nil, err
	}
	var rf ReplayFile
	if err := json.Unmarshal(b, &rf); err != nil {
		return nil, err
	}
	return &rf, nil
}

// modeReplay re-executes a replay file. Exit 1 and a REPRODUCED line when the
// same property/clause fails again; exit 0 with NOT-REPRODUCED otherwise.
func modeReplay(e Engine) int {
	rf, err := readReplay(*fIn)
	if err != nil {
		fmt.Fprintln(os.Stderr, err)
		return 3
	}
	tries := 1
	if rf.Race || rf.Flaky {
		tries = 20 // free-running mode / nondeterministic code under test: replay with retries
	}
	for k := 0; k < tries; k++ {
		t := ReplayTape(rf.Seed, MapToStreams(rf.Tape))
		if rf.Generate {
			t = NewTape(rf.Seed)
		}
		out := e.Run(t, RunOpts{Property: rf.Property, Tier: rf.Tier, Render: true, Race: rf.Race})
		if out.Infra != "" {
			fmt.Printf("INFRA %s\n", out.Infra)
			return 3
		}
		for _, v := range out.Violations {
			if v.Property == rf.Property && v.Clause == rf.Clause {
				fmt.Printf("REPRODUCED property=%s clause=%s step=%d features=%s\n%s\n", v.Property, v.Clause, v.Step, featKey(v.Features), v.Detail)
				if *fOut != "" {
					_ = writeJSON(*fOut, mkReplay(e, t, out, v, RunOpts{Tier: rf.Tier, Race: rf.Race}))
				}
				return 1
			}
		}
	}
	fmt.Printf("NOT-REPRODUCED property=%s clause=%s\n", rf.Property, rf.Clause)
	return 0
}

func modeShrink(e Engine) int {
	rf, err := readReplay(*fIn)
	if err != nil {
		fmt.Fprintln(os.Stderr, err)
		return 3
	}
	if rf.Race {
		// schedules are not controlled in free-running mode: nothing to shrink
		rf.ShrinkInfo = "free-running mode: not shrunk"
		_ = writeJSON(*fOut, rf)
		return 0
	}
	opts := RunOpts{Property: rf.Property, Tier: rf.Tier}
	try := func(s Streams) (bool, Streams) {
		t := ReplayTape(rf.Seed, s)
		out := e.Run(t, opts)
		if out.Infra != "" {
			return false, s
		}
		for _, v := range out.Violations {
			if v.Property == rf.Property && v.Clause == rf.Clause {
				return true, t.Recorded()
			}
		}
		return false, s
	}
	init := MapToStreams(rf.Tape)
	ok, used := try(init)
	if !ok {
		fmt.Println("SHRINK: initial tape does not reproduce")
		return 3
	}
	n0, _ := TotalLen(used)
	best, tries := Shrink(used, try, *fBudget, 0)
	n1, _ := TotalLen(best)
	// final rendered run
	t := ReplayTape(rf.Seed, best)
	o := opts
	o.Render = true
	out := e.Run(t, o)
	for _, v := range out.Violations {
		if v.Property == rf.Property && v.Clause == rf.Clause {
			nr := mkReplay(e, t, out, v, o)
			n1, _ = TotalLen(t.Recorded())
			nr.ShrinkInfo = fmt.Sprintf("tape shrunk from %d to %d choices in %d executions", n0, n1, tries)
			if err := writeJSON(*fOut, nr); err != nil {
				fmt.Fprintln(os.Stderr, err)
				return 3
			}
			fmt.Printf("SHRUNK %d -> %d choices, %d executions\n", n0, n1, tries)
			return 0
		}
	}
	fmt.Println("SHRINK: minimised tape does not reproduce (nondeterminism)")
	return 3
}

// modeOne runs a single run index with rendering and prints it (debugging).
func modeOne(e Engine) int {
	seed := RunSeed(*fSeed, *fProp, *fIndex)
	t := NewTape(seed)
	out := e.Run(t, RunOpts{Property: *fProp, Tier: *fTier, Render: true, Race: *fRace})
	b, _ := json.MarshalIndent(map[string]any{"seed": seed, "scenario": out.Scenario, "trace": out.Trace,
		"violations": out.Violations, "probes": out.Probes, "faults": out.Faults, "steps": out.Steps,
		"sim_ns": out.SimTimeNs, "infra": out.Infra, "nontrivial": out.NonTrivial, "loghash": out.LogHash}, "", " ")
	fmt.Println(string(b))
	return 0
}

// modeHashes runs the first -runs run indexes and writes one line per run with
// the hash of its full event log: the determinism self-test diffs these files
// across processes, GOMAXPROCS values and CPU masks.
func modeHashes(e Engine) int {
	var b strings.Builder
	for i := 0; i < *fRuns; i++ {
		seed := RunSeed(*fSeed, *fProp, i)
		out := e.Run(NewTape(seed), RunOpts{Property: *fProp, Tier: *fTier})
		fmt.Fprintf(&b, "%d %d %x %d %d %s\n", i, seed, out.LogHash, out.Steps, len(out.Violations), out.Infra)
	}
	if err := os.WriteFile(*fOut, []byte(b.String()), 0o644); err != nil {
		return 3
	}
	return 0
}
