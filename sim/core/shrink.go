package core

import "time"

// Streams is the recorded content of a tape.
type Streams = [NStreams][]uint32

// TotalLen is the shrink measure: fewer values first, then smaller values.
func TotalLen(s Streams) (n int, sum uint64) {
	for i := range s {
		n += len(s[i])
		for _, v := range s[i] {
			sum += uint64(v)
		}
	}
	return
}

func cloneStreams(s Streams) Streams {
	var o Streams
	for i := range s {
		o[i] = append([]uint32(nil), s[i]...)
	}
	return o
}

// Shrink minimises a failing tape. try re-executes a candidate and reports
// whether the same violation (same property and clause) still occurs, and the
// streams as actually consumed by that execution (which may be shorter than
// the candidate). The best candidate found within the budget is returned.
func Shrink(init Streams, try func(Streams) (bool, Streams), budget time.Duration, maxTries int) (best Streams, tries int) {
	deadline := time.Now().Add(budget)
	best = cloneStreams(init)
	over := func() bool { return time.Now().After(deadline) || (maxTries > 0 && tries >= maxTries) }
	attempt := func(c Streams) bool {
		if over() {
			return false
		}
		tries++
		ok, used := try(c)
		if !ok {
			return false
		}
		// adopt the consumed form when it is no larger
		bn, bs := TotalLen(best)
		un, us := TotalLen(used)
		cn, cs := TotalLen(c)
		if un < cn || (un == cn && us <= cs) {
			c, cn, cs = used, un, us
		}
		if cn < bn || (cn == bn && cs < bs) {
			best = cloneStreams(c)
			return true
		}
		return false
	}
	order := []Stream{Gen, Fault, Cfg, Sched}
	for round := 0; round < 50 && !over(); round++ {
		improved := false
		for _, st := range order {
			// 1. truncate the tail
			for cut := len(best[st]); cut > 0 && !over(); cut /= 2 {
				if len(best[st]) < cut {
					continue
				}
				c := cloneStreams(best)
				c[st] = c[st][:len(c[st])-cut]
				if attempt(c) {
					improved = true
				}
			}
			// 2. delete chunks
			for size := 16; size >= 1 && !over(); size /= 2 {
				for i := 0; i+size <= len(best[st]) && !over(); {
					c := cloneStreams(best)
					c[st] = append(c[st][:i], c[st][i+size:]...)
					if attempt(c) {
						improved = true
					} else {
						i += size
					}
				}
			}
			// 3. zero chunks
			for size := 8; size >= 1 && !over(); size /= 2 {
				for i := 0; i+size <= len(best[st]) && !over(); i += size {
					allZero := true
					for _, v := range best[st][i : i+size] {
						if v != 0 {
							allZero = false
						}
					}
					if allZero {
						continue
					}
					c := cloneStreams(best)
					for j := i; j < i+size; j++ {
						c[st][j] = 0
					}
					if attempt(c) {
						improved = true
					}
				}
			}
			// 4. lower single values
			for i := 0; i < len(best[st]) && !over(); i++ {
				for best[st][i] > 0 && !over() {
					v := best[st][i]
					c := cloneStreams(best)
					c[st][i] = v / 2
					if attempt(c) {
						improved = true
						continue
					}
					c = cloneStreams(best)
					c[st][i] = v - 1
					if attempt(c) {
						improved = true
						continue
					}
					break
				}
			}
		}
		if !improved {
			break
		}
	}
	return best, tries
}
