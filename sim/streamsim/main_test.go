package streamsim

import (
	"flag"
	"os"
	"testing"

	"verif/core"
)

var fRaceLog = flag.String("racelog", "", "GORACE log_path prefix (parallel mode)")

var exitCode int

// TestWorker is the entry point of a worker process (a test binary for
// uniformity with batchsim: same driver, same flags).
func TestWorker(t *testing.T) {
	exitCode = core.WorkerMain(&Engine{RaceLog: *fRaceLog})
}

func TestMain(m *testing.M) {
	flag.Parse()
	c := m.Run()
	if c != 0 && exitCode == 0 && !core.RaceMode() {
		exitCode = 3
	}
	os.Exit(exitCode)
}
