package streamsim

import (
	"encoding/binary"
	"fmt"
	"math"
	"strconv"

	"go.opentelemetry.io/collector/pdata/pcommon"
	"go.opentelemetry.io/collector/pdata/plog"
	"go.opentelemetry.io/collector/pdata/pmetric"
	"go.opentelemetry.io/collector/pdata/ptrace"

	"verif/core"
)

// G generates OTLP values from the tape. Generators aim at what the
// quantifiers name rather than at realistic shapes: every optional field is
// independently zero / boundary / repeated, alphabets are small so that
// dictionaries and delta groups form, and resources / scopes are often
// duplicates or near-duplicates of each other.
type G struct {
	t *core.Tape
	// InDomain restricts values to the domain of C01-C04: valid UTF-8,
	// timestamps <= 2^63-1, nesting <= 16.
	InDomain bool
	// MaxItems bounds spans / log records / metrics per scope.
	MaxItems int
	// Uniq, when > 0, makes string fields unique (cardinality ramps): every
	// generated name gets a fresh suffix counted from here.
	Uniq    *int
	UniqPct int
	// NumRamp extends a cardinality ramp to the dictionary-encoded columns that
	// do not hold strings: int32 enumerations (span kind, status code, severity
	// number, aggregation temporality - pdata accepts any int32), int64 and
	// bytes attribute values and bodies, trace and span ids, durations. The
	// choices are drawn on the Ext stream after the ordinary Gen draw.
	NumRamp bool
	nested  int // 0 undecided, 1 no, 2 yes: see nestedFamily
	pending int // items promised by nItems and not yet counted in Items
	// Plain biases toward attribute-free items (cheap, large batches).
	Plain bool
	// Wide makes a batch of many resources and scopes with one item each (so
	// that the dictionaries of resource / scope level columns grow).
	Wide bool
	// Long: the next list or map value generated gets more than 131,072
	// elements (once per batch).
	Long bool
	// Narrow > 0: a structurally poor stream - no resource or scope
	// attributes, and every attribute value of one type (1 string, 2 int,
	// 3 double, 4 bool) - so that streams differ in which optional columns
	// and attribute records they have at all.
	Narrow int
	// Bare forbids attributes, events, links and exemplars altogether, so that
	// the main record has no id column and no related record exists.
	Bare bool
	// Budget, when > 0, bounds the items of the whole batch (the round-trip
	// domain allows at most 65,535 id-bearing parents per table).
	Budget int
	// summary of what was generated (for samples)
	Items int
}

func (g *G) d(n int) int         { return g.t.Draw(core.Gen, n) }
func (g *G) w(ws ...int) int     { return g.t.Weighted(core.Gen, ws...) }
func (g *G) p(num, den int) bool { return g.t.Chance(core.Gen, num, den) }
func pick[T any](g *G, xs []T) T { return xs[g.d(len(xs))] }
func (g *G) uniq() (string, bool) {
	if g.Uniq != nil && g.t.Chance(core.Gen, g.UniqPct, 100) {
		*g.Uniq++
		return fmt.Sprintf("u%07d", *g.Uniq), true
	}
	return "", false
}

// un returns a fresh number of the ramp for a non-string dictionary column.
func (g *G) un() (uint64, bool) {
	if g.NumRamp && g.Uniq != nil && g.t.Chance(core.Ext, g.UniqPct, 100) {
		*g.Uniq++
		return uint64(*g.Uniq), true
	}
	return 0, false
}

// enum is an enumeration field: one of the n defined values, or - on a numeric
// ramp - any int32.
func (g *G) enum(n int) int32 {
	v := int32(g.d(n))
	if u, ok := g.un(); ok {
		return int32(u)
	}
	return v
}

func (g *G) intVal() int64 {
	v := pick(g, intPool)
	if u, ok := g.un(); ok {
		return int64(u) * 7
	}
	return v
}

var strPool = []string{"", "a", "b", "1", "true", "a,b", "x:y|{z}", "k=v;", "ü-ñ-漢", "svc", "0", " ", "\"q\"", "[1]", "{}"}
var keyPool = []string{"k1", "k2", "k3", "a.b", "service.name", "1", "k,1", "k:1", ""}
var badStr = []string{"\xff\xfe", "a\xc3", "\x00"}
var intPool = []int64{0, 1, -1, 2, 255, 256, 65535, 65536, math.MaxInt64, math.MinInt64, 42}
var dblPool = []float64{0, math.Copysign(0, -1), 1, 1.5, -2.25, math.MaxFloat64, math.SmallestNonzeroFloat64, math.Inf(1), math.Inf(-1), math.NaN(), 42}
var tsPool = []uint64{0, 1, 2, 1000, 1_700_000_000_000_000_000, math.MaxInt64, math.MaxInt64 - 1, 1 << 32}
var tsBad = []uint64{math.MaxInt64 + 1, math.MaxUint64}
var u32Pool = []uint32{0, 1, 2, 255, 65536, math.MaxUint32}
var u64Pool = []uint64{0, 1, 2, 255, 1 << 40, math.MaxUint64, math.MaxInt64}

func (g *G) str() string {
	if s, ok := g.uniq(); ok {
		return s
	}
	if !g.InDomain && g.p(1, 12) {
		return pick(g, badStr)
	}
	return pick(g, strPool)
}

func (g *G) key() string {
	if !g.InDomain && g.p(1, 20) {
		return pick(g, badStr)
	}
	return keyPool[g.w(6, 5, 3, 2, 2, 1, 1, 1, 1)]
}

func (g *G) ts() pcommon.Timestamp {
	if !g.InDomain && g.p(1, 10) {
		return pcommon.Timestamp(pick(g, tsBad))
	}
	return pcommon.Timestamp(pick(g, tsPool))
}

func (g *G) bytesVal() []byte {
	b := [][]byte{{}, {0}, {1, 2}, {255, 0, 255}, []byte("bin")}[g.d(5)]
	if u, ok := g.un(); ok {
		return binary.BigEndian.AppendUint64([]byte("u"), u)
	}
	return b
}

// value fills v with a random AnyValue; depth is the remaining nesting budget.
func (g *G) value(v pcommon.Value, depth int) {
	var c int
	if depth <= 0 {
		c = g.w(5, 4, 3, 2, 2, 1)
	} else {
		c = g.w(5, 4, 3, 2, 2, 1, 2, 2)
	}
	switch c {
	case 0:
		v.SetStr(g.str())
	case 1:
		v.SetInt(g.intVal())
	case 2:
		v.SetDouble(pick(g, dblPool))
	case 3:
		v.SetBool(g.p(1, 2))
	case 4:
		v.SetEmptyBytes().FromRaw(g.bytesVal())
	case 5:
		// unset
	case 6:
		sl := v.SetEmptySlice()
		if g.Long {
			// one very long flat list per batch (the domain bounds nesting, not length)
			g.Long = false
			n := 131073 + g.d(3)
			sl.EnsureCapacity(n)
			for i := 0; i < n; i++ {
				sl.AppendEmpty().SetInt(int64(i % 7))
			}
			return
		}
		n := g.w(1, 3, 2, 1)
		for i := 0; i < n; i++ {
			g.value(sl.AppendEmpty(), depth-1)
		}
	case 7:
		m := v.SetEmptyMap()
		// (a long map is rarer than a long list: pcommon.Map inserts scan for the
		// key, so decoding 131,073 entries takes some twenty seconds)
		if g.Long && g.p(1, 4) {
			g.Long = false
			n := 131073 + g.d(3)
			m.EnsureCapacity(n)
			for i := 0; i < n; i++ {
				m.PutBool("k"+strconv.Itoa(i), i%3 == 0)
			}
			return
		}
		n := g.w(1, 3, 2, 1)
		for i := 0; i < n; i++ {
			g.value(m.PutEmpty(g.key()), depth-1)
		}
	}
}

// deep builds a value nested exactly n levels deep.
func (g *G) deep(v pcommon.Value, n int) {
	for i := 0; i < n; i++ {
		if g.p(1, 2) {
			v = v.SetEmptySlice().AppendEmpty()
		} else {
			v = v.SetEmptyMap().PutEmpty("n")
		}
	}
	v.SetStr("leaf")
}

func (g *G) attrs(m pcommon.Map) {
	if g.Bare || (g.Plain && !g.p(1, 8)) {
		return
	}
	if g.Narrow > 0 {
		n := 1 + g.d(2)
		for i := 0; i < n; i++ {
			k := []string{"a", "b"}[i]
			switch g.Narrow {
			case 1:
				m.PutStr(k, g.str())
			case 2:
				m.PutInt(k, g.intVal())
			case 3:
				m.PutDouble(k, pick(g, dblPool))
			default:
				m.PutBool(k, g.p(1, 2))
			}
		}
		return
	}
	n := g.w(3, 4, 3, 2, 1)
	for i := 0; i < n; i++ {
		k := g.key()
		v := m.PutEmpty(k)
		switch {
		case g.p(1, 40):
			if g.InDomain {
				g.deep(v, 1+g.d(16))
			} else {
				g.deep(v, 1+g.d(40))
			}
		default:
			g.value(v, 3)
		}
	}
}

func (g *G) traceID() pcommon.TraceID {
	id := g.traceID0()
	if u, ok := g.un(); ok {
		binary.BigEndian.PutUint64(id[8:], u)
		id[0] = 0xee
	}
	return id
}

func (g *G) traceID0() pcommon.TraceID {
	switch g.w(2, 3, 3, 1) {
	case 0:
		return pcommon.TraceID{}
	case 1:
		return pcommon.TraceID{1, 2, 3, 4, 5, 6, 7, 8, 9, 10, 11, 12, 13, 14, 15, 16}
	case 2:
		return pcommon.TraceID{byte(g.d(4)), 0, 0, 0, 0, 0, 0, 0, 0, 0, 0, 0, 0, 0, 0, byte(g.d(3))}
	}
	return pcommon.TraceID{255, 255, 255, 255, 255, 255, 255, 255, 255, 255, 255, 255, 255, 255, 255, 255}
}

func (g *G) spanID() pcommon.SpanID {
	id := g.spanID0()
	if u, ok := g.un(); ok {
		binary.BigEndian.PutUint64(id[:], u|1<<63)
	}
	return id
}

func (g *G) spanID0() pcommon.SpanID {
	switch g.w(2, 3, 3) {
	case 0:
		return pcommon.SpanID{}
	case 1:
		return pcommon.SpanID{1, 2, 3, 4, 5, 6, 7, 8}
	}
	return pcommon.SpanID{byte(g.d(4)), 0, 0, 0, 0, 0, 0, byte(g.d(3))}
}

// resource fills a resource picked from a small family so that duplicates and
// near-duplicates (same keys, values differing only in type or in embedded
// delimiters) are common.
func (g *G) resource(r pcommon.Resource) {
	switch g.w(2, 2, 2, 2, 2, 2, 2, 3) {
	case 0: // empty resource
	case 1:
		r.Attributes().PutStr("k", "1")
	case 2:
		r.Attributes().PutInt("k", 1)
	case 3:
		r.Attributes().PutStr("k", "a,b")
		r.Attributes().PutStr("l", "c")
	case 4:
		r.Attributes().PutStr("k", "a")
		r.Attributes().PutStr("l", "b,c")
	case 5:
		r.Attributes().PutStr("k", "1")
		r.SetDroppedAttributesCount(uint32(1 + g.d(2)))
	case 6:
		r.SetDroppedAttributesCount(uint32(1 + g.d(2)))
	default:
		g.attrs(r.Attributes())
		r.SetDroppedAttributesCount(pick(g, u32Pool))
	}
	g.nestedFamily(r.Attributes())
	if g.Narrow > 0 {
		r.Attributes().Clear()
	}
}

// nestedFamily replaces, now and then (Ext stream), the attributes of a
// resource or scope by a member of a family whose members share a map-valued
// (or list-of-maps-valued) attribute and differ only in attributes that sort
// before or after it, or only inside the nested value: identities that an
// id / grouping computation must keep apart although most of the rendering is
// equal.
func (g *G) nestedFamily(m pcommon.Map) {
	if g.Bare || g.Wide {
		return
	}
	if g.nested == 0 {
		// decided once per batch, so that a batch has several members of the family or none
		g.nested = 1
		if g.t.Chance(core.Ext, 1, 6) {
			g.nested = 2
		}
	}
	if g.nested != 2 || !g.t.Chance(core.Ext, 2, 3) {
		return
	}
	m.Clear()
	x := func(n int) int { return g.t.Draw(core.Ext, n) }
	fill := func(mm pcommon.Map) {
		mm.PutStr("app", "shop")
		mm.PutStr("tier", []string{"web", "web", "db"}[x(3)])
		if x(3) == 0 {
			mm.PutEmptyMap("zz").PutInt("n", int64(x(2)))
		}
	}
	switch x(3) {
	case 0:
		fill(m.PutEmptyMap("labels"))
	case 1:
		fill(m.PutEmptySlice("labels").AppendEmpty().SetEmptyMap())
	default:
		sl := m.PutEmptySlice("labels")
		sl.AppendEmpty().SetStr("a")
		fill(sl.AppendEmpty().SetEmptyMap())
	}
	if x(2) == 1 {
		m.PutStr("a.first", []string{"1", "2"}[x(2)])
	}
	m.PutStr("service.instance.id", []string{"i-1", "i-2", "i-3"}[x(3)])
	if x(3) == 0 {
		m.PutInt("zone", int64(x(2)))
	}
}

func (g *G) scope(s pcommon.InstrumentationScope) {
	if g.Wide {
		s.SetName(g.str())
		s.SetVersion(g.str())
		return
	}
	// a family of near-identical scopes: the same base with one field perturbed
	switch g.w(2, 2, 2, 2, 2, 2, 2, 3) {
	case 0:
	case 1:
		s.SetName("lib")
	case 2:
		s.SetName("lib")
		s.SetVersion("1")
	case 3:
		s.SetName("lib")
		s.Attributes().PutStr("v", "1")
	case 4:
		s.SetName("lib")
		s.Attributes().PutInt("v", 1)
	case 5:
		s.SetName("lib")
		s.SetDroppedAttributesCount(uint32(1 + g.d(2)))
	case 6:
		s.SetName("lib")
		s.Attributes().PutStr("v", "1")
		s.SetDroppedAttributesCount(uint32(g.d(3)))
	default:
		s.SetName(g.str())
		s.SetVersion(g.str())
		g.attrs(s.Attributes())
		s.SetDroppedAttributesCount(pick(g, u32Pool))
	}
	g.nestedFamily(s.Attributes())
	if g.Narrow > 0 {
		s.Attributes().Clear()
	}
}

func (g *G) schemaURL() string {
	if g.Wide {
		if u, ok := g.uniq(); ok {
			return "https://s/" + u
		}
	}
	return []string{"", "", "https://s/1", "https://s/2"}[g.d(4)]
}

func (g *G) nContainers() int {
	if g.Wide {
		return 6 + g.d(10)
	}
	return g.w(1, 5, 3, 2, 1)
}
func (g *G) nItems() int {
	n := 0
	if g.Wide {
		n = 1
	} else if g.MaxItems <= 0 {
		n = g.w(1, 3, 3, 2, 2, 1, 1)
	} else {
		n = g.d(g.MaxItems + 1)
	}
	if g.Budget > 0 && g.Items+g.pending+n > g.Budget {
		n = g.Budget - g.Items - g.pending
		if n < 0 {
			n = 0
		}
	}
	g.pending += n
	return n
}

func (g *G) Traces() ptrace.Traces {
	td := ptrace.NewTraces()
	nr := g.nContainers()
	for i := 0; i < nr; i++ {
		rs := td.ResourceSpans().AppendEmpty()
		g.resource(rs.Resource())
		rs.SetSchemaUrl(g.schemaURL())
		ns := g.nContainers()
		for j := 0; j < ns; j++ {
			ss := rs.ScopeSpans().AppendEmpty()
			g.scope(ss.Scope())
			ss.SetSchemaUrl(g.schemaURL())
			n := g.nItems()
			for k := 0; k < n; k++ {
				g.span(ss.Spans().AppendEmpty())
				g.Items++
				g.pending--
			}
		}
	}
	return td
}

func (g *G) span(sp ptrace.Span) {
	sp.SetTraceID(g.traceID())
	sp.SetSpanID(g.spanID())
	sp.SetParentSpanID(g.spanID())
	sp.SetName(g.str())
	if g.Bare || (g.Plain && !g.p(1, 6)) {
		sp.SetStartTimestamp(pcommon.Timestamp(1000 + g.d(5)))
		sp.SetEndTimestamp(pcommon.Timestamp(2000))
		return
	}
	sp.TraceState().FromRaw([]string{"", "", "k=v", "a=1,b=2"}[g.d(4)])
	sp.SetKind(ptrace.SpanKind(g.enum(6)))
	st := g.ts()
	sp.SetStartTimestamp(st)
	switch g.w(3, 3, 1, 1) {
	case 0:
		sp.SetEndTimestamp(st)
	case 1:
		if g.InDomain && uint64(st) > math.MaxInt64-1000 {
			sp.SetEndTimestamp(st)
		} else {
			sp.SetEndTimestamp(st + pcommon.Timestamp(g.d(1000)))
			if u, ok := g.un(); ok && uint64(st) < 1<<62 {
				sp.SetEndTimestamp(st + pcommon.Timestamp(u*1000003)) // the duration column is dictionary encoded too
			}
		}
	case 2:
		sp.SetEndTimestamp(g.ts())
	case 3:
		sp.SetEndTimestamp(0)
	}
	sp.SetDroppedAttributesCount(pick(g, u32Pool))
	sp.SetDroppedEventsCount(pick(g, u32Pool))
	sp.SetDroppedLinksCount(pick(g, u32Pool))
	sp.Status().SetCode(ptrace.StatusCode(g.enum(3)))
	sp.Status().SetMessage(pick(g, strPool))
	g.attrs(sp.Attributes())
	ne := g.w(4, 3, 2, 1)
	for i := 0; i < ne; i++ {
		ev := sp.Events().AppendEmpty()
		ev.SetName(g.str())
		ev.SetTimestamp(g.ts())
		ev.SetDroppedAttributesCount(pick(g, u32Pool))
		if g.p(1, 2) {
			g.attrs(ev.Attributes())
		}
	}
	nl := g.w(4, 3, 2, 1)
	for i := 0; i < nl; i++ {
		ln := sp.Links().AppendEmpty()
		ln.SetTraceID(g.traceID())
		ln.SetSpanID(g.spanID())
		ln.TraceState().FromRaw([]string{"", "k=v"}[g.d(2)])
		ln.SetDroppedAttributesCount(pick(g, u32Pool))
		if g.p(1, 2) {
			g.attrs(ln.Attributes())
		}
	}
}

func (g *G) Logs() plog.Logs {
	ld := plog.NewLogs()
	nr := g.nContainers()
	// the same scope under different resources is a case the property names
	for i := 0; i < nr; i++ {
		rl := ld.ResourceLogs().AppendEmpty()
		g.resource(rl.Resource())
		rl.SetSchemaUrl(g.schemaURL())
		ns := g.nContainers()
		for j := 0; j < ns; j++ {
			sl := rl.ScopeLogs().AppendEmpty()
			g.scope(sl.Scope())
			sl.SetSchemaUrl(g.schemaURL())
			n := g.nItems()
			for k := 0; k < n; k++ {
				g.logRecord(sl.LogRecords().AppendEmpty())
				g.Items++
				g.pending--
			}
		}
	}
	return ld
}

func (g *G) logRecord(lr plog.LogRecord) {
	lr.SetTimestamp(g.ts())
	lr.SetObservedTimestamp(g.ts())
	if g.Bare || (g.Plain && !g.p(1, 6)) {
		lr.Body().SetStr(g.str())
		return
	}
	lr.SetTraceID(g.traceID())
	lr.SetSpanID(g.spanID())
	lr.SetSeverityNumber(plog.SeverityNumber(g.enum(25)))
	lr.SetSeverityText(pick(g, strPool))
	if g.p(1, 30) {
		if g.InDomain {
			g.deep(lr.Body(), 1+g.d(16))
		} else {
			g.deep(lr.Body(), 1+g.d(40))
		}
	} else {
		g.value(lr.Body(), 3)
	}
	lr.SetDroppedAttributesCount(pick(g, u32Pool))
	lr.SetFlags(plog.LogRecordFlags(pick(g, u32Pool)))
	g.attrs(lr.Attributes())
}

func (g *G) Metrics() pmetric.Metrics {
	md := pmetric.NewMetrics()
	nr := g.nContainers()
	for i := 0; i < nr; i++ {
		rm := md.ResourceMetrics().AppendEmpty()
		g.resource(rm.Resource())
		rm.SetSchemaUrl(g.schemaURL())
		ns := g.nContainers()
		for j := 0; j < ns; j++ {
			sm := rm.ScopeMetrics().AppendEmpty()
			g.scope(sm.Scope())
			sm.SetSchemaUrl(g.schemaURL())
			n := g.nItems()
			for k := 0; k < n; k++ {
				g.metric(sm.Metrics().AppendEmpty())
				g.Items++
				g.pending--
			}
		}
	}
	return md
}

func (g *G) temporality() pmetric.AggregationTemporality {
	return pmetric.AggregationTemporality(g.enum(3))
}

func (g *G) nPoints() int { return g.w(2, 4, 3, 2, 1) }

func (g *G) exemplars(es pmetric.ExemplarSlice) {
	if g.Bare {
		return
	}
	n := g.w(6, 2, 1)
	for i := 0; i < n; i++ {
		ex := es.AppendEmpty()
		ex.SetTimestamp(g.ts())
		switch g.d(3) {
		case 0:
			ex.SetIntValue(pick(g, intPool))
		case 1:
			ex.SetDoubleValue(pick(g, dblPool))
		}
		ex.SetSpanID(g.spanID())
		ex.SetTraceID(g.traceID())
		if g.p(1, 2) {
			g.attrs(ex.FilteredAttributes())
		}
	}
}

func (g *G) u64s() []uint64 {
	switch g.w(2, 2, 2, 2) {
	case 0:
		return nil
	case 1:
		return []uint64{0, 0, 0}
	case 2:
		return []uint64{pick(g, u64Pool)}
	}
	n := 1 + g.d(4)
	out := make([]uint64, n)
	for i := range out {
		out[i] = pick(g, u64Pool)
	}
	return out
}

func (g *G) f64s() []float64 {
	switch g.w(2, 2, 2) {
	case 0:
		return nil
	case 1:
		return []float64{0, 0}
	}
	n := 1 + g.d(4)
	out := make([]float64, n)
	for i := range out {
		out[i] = pick(g, dblPool)
	}
	return out
}

func (g *G) metric(m pmetric.Metric) {
	m.SetName(g.str())
	m.SetDescription(pick(g, strPool))
	m.SetUnit([]string{"", "ms", "By", "1"}[g.d(4)])
	switch g.w(1, 3, 3, 3, 3, 3) {
	case 0: // empty metric (no data)
	case 1:
		dps := m.SetEmptyGauge().DataPoints()
		n := g.nPoints()
		for i := 0; i < n; i++ {
			g.numberDP(dps.AppendEmpty())
		}
	case 2:
		s := m.SetEmptySum()
		s.SetAggregationTemporality(g.temporality())
		s.SetIsMonotonic(g.p(1, 2))
		n := g.nPoints()
		for i := 0; i < n; i++ {
			g.numberDP(s.DataPoints().AppendEmpty())
		}
	case 3:
		h := m.SetEmptyHistogram()
		h.SetAggregationTemporality(g.temporality())
		n := g.nPoints()
		for i := 0; i < n; i++ {
			dp := h.DataPoints().AppendEmpty()
			dp.SetStartTimestamp(g.ts())
			dp.SetTimestamp(g.ts())
			dp.SetCount(pick(g, u64Pool))
			if g.p(1, 2) {
				dp.SetSum(pick(g, dblPool))
			}
			if g.p(1, 3) {
				dp.SetMin(pick(g, dblPool))
			}
			if g.p(1, 3) {
				dp.SetMax(pick(g, dblPool))
			}
			dp.BucketCounts().FromRaw(g.u64s())
			dp.ExplicitBounds().FromRaw(g.f64s())
			dp.SetFlags(pmetric.DataPointFlags(pick(g, u32Pool)))
			g.attrs(dp.Attributes())
			g.exemplars(dp.Exemplars())
		}
	case 4:
		h := m.SetEmptyExponentialHistogram()
		h.SetAggregationTemporality(g.temporality())
		n := g.nPoints()
		for i := 0; i < n; i++ {
			dp := h.DataPoints().AppendEmpty()
			dp.SetStartTimestamp(g.ts())
			dp.SetTimestamp(g.ts())
			dp.SetCount(pick(g, u64Pool))
			if g.p(1, 2) {
				dp.SetSum(pick(g, dblPool))
			}
			if g.p(1, 3) {
				dp.SetMin(pick(g, dblPool))
			}
			if g.p(1, 3) {
				dp.SetMax(pick(g, dblPool))
			}
			dp.SetScale([]int32{0, 1, -1, 20, math.MinInt32}[g.d(5)])
			dp.SetZeroCount(pick(g, u64Pool))
			dp.Positive().SetOffset([]int32{0, 1, -3, math.MaxInt32}[g.d(4)])
			dp.Positive().BucketCounts().FromRaw(g.u64s())
			dp.Negative().SetOffset([]int32{0, 2, -1}[g.d(3)])
			dp.Negative().BucketCounts().FromRaw(g.u64s())
			dp.SetFlags(pmetric.DataPointFlags(pick(g, u32Pool)))
			g.attrs(dp.Attributes())
			g.exemplars(dp.Exemplars())
		}
	case 5:
		dps := m.SetEmptySummary().DataPoints()
		n := g.nPoints()
		for i := 0; i < n; i++ {
			dp := dps.AppendEmpty()
			dp.SetStartTimestamp(g.ts())
			dp.SetTimestamp(g.ts())
			dp.SetCount(pick(g, u64Pool))
			dp.SetSum(pick(g, dblPool))
			dp.SetFlags(pmetric.DataPointFlags(pick(g, u32Pool)))
			nq := g.w(3, 3, 2, 1)
			for q := 0; q < nq; q++ {
				qv := dp.QuantileValues().AppendEmpty()
				qv.SetQuantile([]float64{0, 0.5, 0.99, 1}[g.d(4)])
				qv.SetValue(pick(g, dblPool))
			}
			g.attrs(dp.Attributes())
		}
	}
}

func (g *G) numberDP(dp pmetric.NumberDataPoint) {
	dp.SetStartTimestamp(g.ts())
	dp.SetTimestamp(g.ts())
	switch g.w(4, 4, 1) {
	case 0:
		dp.SetIntValue(pick(g, intPool))
	case 1:
		dp.SetDoubleValue(pick(g, dblPool))
	}
	dp.SetFlags(pmetric.DataPointFlags(pick(g, u32Pool)))
	g.attrs(dp.Attributes())
	g.exemplars(dp.Exemplars())
}
