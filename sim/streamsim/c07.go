package streamsim

import (
	"fmt"
	"strings"

	colarspb "github.com/open-telemetry/otel-arrow/api/experimental/arrow/v1"
	"github.com/open-telemetry/otel-arrow/pkg/otel/arrow_record"

	"verif/core"
)

// fault is one payload-level alteration of a BatchArrowRecords in transit.
type fault struct {
	Kind string // relabel | drop | duplicate | duplicate_relabel | swap_labels | reorder | empty | schema_id_unknown | schema_id_stale
	I, J int
	To   colarspb.ArrowPayloadType
	ID   string
}

func (f fault) String() string {
	switch f.Kind {
	case "relabel":
		return fmt.Sprintf("relabel payload %d as %s", f.I, f.To)
	case "reorder":
		return fmt.Sprintf("swap payloads %d and %d", f.I, f.J)
	case "duplicate_relabel":
		return fmt.Sprintf("duplicate payload %d and relabel the copy as %s", f.I, f.To)
	case "swap_labels":
		return fmt.Sprintf("exchange the type labels of payloads %d and %d", f.I, f.J)
	case "all_ids_unknown":
		return "every payload gets a different unknown schema id (what a consumer that restarted and lost all its state sees)"
	case "schema_id_stale":
		return fmt.Sprintf("payload %d gets the retired schema id %q", f.I, f.ID)
	case "schema_id_stale_in_batch":
		return fmt.Sprintf("payload %d gets the schema id %q, which the producer retires in this very batch (another payload type held it until now)", f.I, f.ID)
	case "schema_id_unknown":
		return fmt.Sprintf("payload %d gets the unknown schema id %q", f.I, f.ID)
	}
	return fmt.Sprintf("%s payload %d", f.Kind, f.I)
}

// desyncs: these faults remove, repeat or divert a message of a live
// sub-stream (drop, duplicate, empty, and also unknown / stale schema ids,
// which send the message to another reader), so that sub-stream's dictionary
// / reader state no longer matches the producer's; what later batches meet is
// Arrow-internal indexing, which the property puts outside its domain. Only
// relabelling and reordering leave every sub-stream in step.
func (f fault) desyncs() bool {
	return f.Kind != "relabel" && f.Kind != "reorder" && f.Kind != "swap_labels"
}

func applyFault(bar *colarspb.BatchArrowRecords, f fault) {
	ps := bar.ArrowPayloads
	switch f.Kind {
	case "relabel":
		ps[f.I].Type = f.To
	case "drop":
		bar.ArrowPayloads = append(ps[:f.I:f.I], ps[f.I+1:]...)
	case "duplicate":
		cp := &colarspb.ArrowPayload{SchemaId: ps[f.I].SchemaId, Type: ps[f.I].Type, Record: append([]byte(nil), ps[f.I].Record...)}
		out := append([]*colarspb.ArrowPayload{}, ps[:f.I+1]...)
		out = append(out, cp)
		bar.ArrowPayloads = append(out, ps[f.I+1:]...)
	case "duplicate_relabel":
		cp := &colarspb.ArrowPayload{SchemaId: ps[f.I].SchemaId, Type: f.To, Record: append([]byte(nil), ps[f.I].Record...)}
		out := append([]*colarspb.ArrowPayload{}, ps[:f.I+1]...)
		out = append(out, cp)
		bar.ArrowPayloads = append(out, ps[f.I+1:]...)
	case "swap_labels":
		ps[f.I].Type, ps[f.J].Type = ps[f.J].Type, ps[f.I].Type
	case "all_ids_unknown":
		for k := range ps {
			ps[k].SchemaId = fmt.Sprintf("9%03d", k)
		}
	case "reorder":
		ps[f.I], ps[f.J] = ps[f.J], ps[f.I]
	case "empty":
		ps[f.I].Record = []byte{}
	case "schema_id_unknown", "schema_id_stale", "schema_id_stale_in_batch":
		ps[f.I].SchemaId = f.ID
	}
}

// singleFaults enumerates every single fault applicable to a batch.
func singleFaults(bar *colarspb.BatchArrowRecords, signal string, retired []string) []fault {
	var fs []fault
	n := len(bar.ArrowPayloads)
	// relabel targets: the main type of the signal (duplicate main record), a
	// main type of another signal, related types of this and of other signals,
	// and values outside the enum
	var relabelTo []colarspb.ArrowPayloadType
	switch signal {
	case "traces":
		relabelTo = []colarspb.ArrowPayloadType{colarspb.ArrowPayloadType_SPANS, colarspb.ArrowPayloadType_LOGS, colarspb.ArrowPayloadType_RESOURCE_ATTRS,
			colarspb.ArrowPayloadType_SPAN_EVENTS, colarspb.ArrowPayloadType_SPAN_LINK_ATTRS, colarspb.ArrowPayloadType_NUMBER_DATA_POINTS}
	case "logs":
		relabelTo = []colarspb.ArrowPayloadType{colarspb.ArrowPayloadType_LOGS, colarspb.ArrowPayloadType_SPANS, colarspb.ArrowPayloadType_SCOPE_ATTRS,
			colarspb.ArrowPayloadType_LOG_ATTRS, colarspb.ArrowPayloadType_SPAN_EVENTS}
	default:
		relabelTo = []colarspb.ArrowPayloadType{colarspb.ArrowPayloadType_UNIVARIATE_METRICS, colarspb.ArrowPayloadType_MULTIVARIATE_METRICS, colarspb.ArrowPayloadType_LOGS,
			colarspb.ArrowPayloadType_RESOURCE_ATTRS, colarspb.ArrowPayloadType_NUMBER_DATA_POINTS, colarspb.ArrowPayloadType_HISTOGRAM_DP_EXEMPLARS, colarspb.ArrowPayloadType_SUMMARY_DP_ATTRS}
	}
	relabelTo = append(relabelTo, colarspb.ArrowPayloadType_UNKNOWN, colarspb.ArrowPayloadType(99))
	// crash-restart of the consumer with loss of all (non-durable) state is the
	// same as every schema id being unknown
	fs = append(fs, fault{Kind: "all_ids_unknown"})
	for i := 0; i < n; i++ {
		for _, to := range relabelTo {
			if to != bar.ArrowPayloads[i].Type {
				fs = append(fs, fault{Kind: "relabel", I: i, To: to})
			}
		}
		fs = append(fs, fault{Kind: "drop", I: i}, fault{Kind: "duplicate", I: i}, fault{Kind: "empty", I: i},
			fault{Kind: "schema_id_unknown", I: i, ID: "424242"})
		for _, id := range retired {
			fs = append(fs, fault{Kind: "schema_id_stale", I: i, ID: id})
		}
		for j := i + 1; j < n; j++ {
			fs = append(fs, fault{Kind: "reorder", I: i, J: j}, fault{Kind: "swap_labels", I: i, J: j})
		}
		// structured compound faults: a payload delivered twice, the second
		// time under another label
		for _, to := range relabelTo {
			if to != bar.ArrowPayloads[i].Type {
				fs = append(fs, fault{Kind: "duplicate_relabel", I: i, To: to})
			}
		}
	}
	return fs
}

// runFaults decides C07. For a sampled stream (prefix, target batch, suffix)
// every single payload-level fault on the target batch is tried, each on a
// fresh consumer brought to the same state by the prefix; then tape-chosen
// pairs and triples.
func (r *run) runFaults() {
	t := r.tape
	hp := &histPlan{inDomain: true}
	all := []string{"traces", "logs", "metrics"}
	first := t.Draw(core.Cfg, 3)
	hp.signals = []string{all[first]}
	// one stream in three carries two or three signals: the consumer then holds
	// readers of other signals' payload types (and of the attribute sub-streams
	// the signals share) when the damaged batch arrives
	switch t.Weighted(core.Cfg, 4, 1, 1) {
	case 1:
		hp.signals = []string{all[first], all[(first+1)%3]}
	case 2:
		hp.signals = all
	}
	signal := "" // the signal of the target batch, known once it is generated
	opt := defaultOptions()
	if t.Chance(core.Cfg, 1, 3) {
		opt = drawOptions(t, true)
	}
	for k, v := range opt.Features() {
		r.feats[k] = v
	}
	r.feats["signals"] = strings.Join(hp.signals, "+")
	nPrefix := t.Weighted(core.Gen, 2, 3, 3, 2, 2, 1, 1, 1, 1)
	nSuffix := t.Weighted(core.Gen, 2, 3, 2, 1, 1)
	hp.nBatches = nPrefix + 1 + nSuffix
	hp.ramp = []string{"", "small"}[t.Weighted(core.Gen, 6, 1)]
	hp.bare = t.Chance(core.Gen, 1, 5)

	producer := arrow_record.NewProducerWithOptions(opt.build(nil, nil)...)
	defer func() { _ = producer.Close() }()
	type enc struct {
		bar    *colarspb.BatchArrowRecords
		want   []Item
		items  int
		signal string
	}
	var stream []enc
	// ids retired by the producer before the target batch
	current := map[colarspb.ArrowPayloadType]string{}
	var retired []string
	type staleHere struct {
		id  string
		typ colarspb.ArrowPayloadType
	}
	var retiredHere []staleHere
	for i := 0; i < hp.nBatches; i++ {
		r.batch = i
		b := r.genBatch(hp, i)
		if i == nPrefix && b.items == 0 {
			// the target batch should carry something
			g := &G{t: t, InDomain: true, Bare: hp.bare}
			switch b.signal {
			case "traces":
				b.td = g.Traces()
			case "logs":
				b.ld = g.Logs()
			default:
				b.md = g.Metrics()
			}
			b.items = g.Items
		}
		want := b.canon()
		bar, err, pan := encode(producer, b)
		if pan != "" || err != nil {
			// the producer's behaviour is C01-C04/C08's business; this stream cannot be used
			r.probe("stream_not_encodable")
			return
		}
		if i < nPrefix {
			// ids retired strictly before the target batch: the consumer has
			// dropped them too. (An id replaced inside the target batch may
			// still be live when an earlier payload of that batch is read;
			// giving it to another payload would splice bytes into a live
			// sub-stream, which is outside the property's domain.)
			for _, p := range bar.ArrowPayloads {
				if old, ok := current[p.Type]; ok && old != p.SchemaId {
					retired = append(retired, old)
				}
				current[p.Type] = p.SchemaId
			}
		}
		if i == nPrefix {
			signal = b.signal
			// ids the producer retires in the target batch itself: no payload of the batch
			// carries them, but the consumer still holds their readers until it meets the
			// superseding payload
			for _, p := range bar.ArrowPayloads {
				if old, ok := current[p.Type]; ok && old != p.SchemaId {
					retiredHere = append(retiredHere, staleHere{id: old, typ: p.Type})
				}
			}
		}
		stream = append(stream, enc{bar: bar, want: want, items: len(want), signal: b.signal})
		r.sig.Str(b.kind).Int(int64(len(bar.ArrowPayloads)))
	}
	if len(retired) > 2 {
		retired = retired[len(retired)-2:]
	}
	target := stream[nPrefix]
	mt := mainType(signal)

	// one trial: fresh consumer, prefix, faulted target, suffix
	trial := func(fs []fault) {
		c := arrow_record.NewConsumer()
		defer func() { _ = c.Close() }()
		for i := 0; i < nPrefix; i++ {
			got, _, err, pan := decode(c, stream[i].signal, cloneBar(stream[i].bar))
			if pan != "" || err != nil || DiffItems(stream[i].want, got) != "" {
				if len(fs) == 0 {
					r.violate("C07", "healthy-decodes", fmt.Sprintf("batch %d of the fault-free prefix: err=%v panic=%q diff=%s", i, err, pan, DiffItems(stream[i].want, got)))
				}
				return
			}
		}
		bar := cloneBar(target.bar)
		desync := false
		var names []string
		for _, f := range fs {
			if f.I >= len(bar.ArrowPayloads) || ((f.Kind == "reorder" || f.Kind == "swap_labels") && f.J >= len(bar.ArrowPayloads)) {
				continue
			}
			applyFault(bar, f)
			r.fault(f.Kind)
			desync = desync || f.desyncs()
			names = append(names, f.String())
		}
		desc := strings.Join(names, "; ")
		got, _, err, pan := decode(c, signal, bar)
		if len(fs) == 0 {
			if pan != "" || err != nil || DiffItems(target.want, got) != "" {
				r.violate("C07", "healthy-decodes", fmt.Sprintf("fault-free control run: target batch err=%v panic=%q diff=%s", err, pan, DiffItems(target.want, got)))
			}
		} else {
			if pan != "" {
				r.feats["fault"] = fs[0].Kind
				r.violate("C07", "no-panic", fmt.Sprintf("after %d healthy batches, batch with fault [%s]: consumer panicked: %s", nPrefix, desc, pan))
				return
			}
			if err == nil {
				r.probe("faulted_batch_accepted")
				// is the main record still present in the delivered batch? Its
				// bytes count, whatever label they travel under: a main record
				// relabelled as a related payload is still "a main record that
				// was present in the batch", and success without its telemetry
				// discards it silently.
				mainPresent := false
				mainBytes := target.bar.ArrowPayloads[0].Record
				for _, p := range bar.ArrowPayloads {
					if len(p.Record) > 0 && (p.Type == mt || string(p.Record) == string(mainBytes)) {
						mainPresent = true
					}
				}
				if mainPresent && target.items > 0 && len(got) == 0 {
					r.feats["fault"] = fs[0].Kind
					r.violate("C07", "no-silent-loss", fmt.Sprintf("after %d healthy batches, batch with fault [%s] still contains the %s main record (%d items) but the consumer returned success with no telemetry", nPrefix, desc, mt, target.items))
					return
				}
				if mainPresent && len(got) != target.items {
					r.probe("partial_decode_on_success")
				}
			} else {
				r.probe("faulted_batch_rejected")
			}
		}
		// The stream goes on only if every sub-stream is still in step. (Whether
		// the faulted batch was accepted or rejected does not matter: since
		// the consumer drops all its readers when a batch fails half-way, a
		// caller that keeps using it after an error must get errors, not a
		// panic.)
		// After a fault that takes a sub-stream out of step (drop, duplicate, empty, diverted
		// message) the later batches are delivered too, but only "never panics" is asked of
		// them: whether they decode, and to what, is Arrow-internal indexing the property
		// leaves open.
		if desync {
			r.probe("batches_delivered_after_a_desynchronising_fault")
		}
		_ = err
		for i := nPrefix + 1; i < len(stream); i++ {
			_, _, ferr, pan := decode(c, stream[i].signal, cloneBar(stream[i].bar))
			if pan == "" && ferr != nil {
				r.probe("later_batch_rejected")
			}
			if pan != "" {
				if len(fs) > 0 {
					r.feats["fault"] = fs[0].Kind
				}
				r.violate("C07", "no-panic", fmt.Sprintf("batch with fault [%s] was delivered; %d batches later the consumer panicked on a healthy batch: %s", desc, i-nPrefix, pan))
				return
			}
		}
	}

	trial(nil)
	singles := singleFaults(target.bar, signal, retired)
	for _, f := range singles {
		trial([]fault{f})
	}
	// an id retired in this very batch, given to a payload of ANOTHER type that precedes the
	// superseding payload (the same type would splice two messages into one live sub-stream:
	// outside the domain)
	for _, sh := range retiredHere {
		for i, p := range target.bar.ArrowPayloads {
			if p.Type == sh.typ {
				break
			}
			trial([]fault{{Kind: "schema_id_stale_in_batch", I: i, ID: sh.id}})
			r.probe("stale_in_batch_ids_tried")
		}
	}
	r.out.Probes["single_faults_enumerated"] += len(singles)
	// pairs and triples, tape-chosen
	nMulti := 6
	for k := 0; k < nMulti && len(singles) > 1; k++ {
		n := 2 + t.Draw(core.Fault, 2)
		var fs []fault
		usedID := map[string]bool{}
		for x := 0; x < n; x++ {
			f := singles[t.Draw(core.Fault, len(singles))]
			if f.ID != "" {
				// two payloads given the same schema id would be fed to one
				// reader: bytes of different sub-streams spliced together,
				// which is outside the property's domain
				if usedID[f.ID] {
					continue
				}
				usedID[f.ID] = true
			}
			fs = append(fs, f)
		}
		trial(fs)
		r.probe("multi_fault_trials")
	}
	r.out.NonTrivial = nPrefix >= 1
	r.sig.Int(int64(nPrefix)).Int(int64(nSuffix)).Int(int64(len(singles)))
	if r.o.Render {
		var types []string
		for _, p := range target.bar.ArrowPayloads {
			types = append(types, fmt.Sprintf("%s#%s", p.Type, p.SchemaId))
		}
		r.out.Scenario = map[string]any{"property": "C07", "signal": signal, "options": opt, "healthy_prefix_batches": nPrefix, "suffix_batches": nSuffix,
			"target_payloads": types, "retired_schema_ids": retired, "single_faults_tried": len(singles)}
	}
}
