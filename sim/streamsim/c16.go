package streamsim

import (
	"fmt"
	"github.com/open-telemetry/otel-arrow/pkg/config"
	"os"
	"path/filepath"
	"runtime"
	"strings"
	"sync"
	"time"

	"go.opentelemetry.io/collector/pdata/plog"
	"go.opentelemetry.io/collector/pdata/pmetric"
	"go.opentelemetry.io/collector/pdata/ptrace"
	"google.golang.org/protobuf/proto"

	colarspb "github.com/open-telemetry/otel-arrow/api/experimental/arrow/v1"
	"github.com/open-telemetry/otel-arrow/pkg/otel/arrow_record"

	"verif/core"
)

// pairPlan is one producer/consumer pair with its own options and history.
type pairPlan struct {
	opt     OptionSet
	batches []*batchIn
	want    []uint64 // hash of the reference model's items per batch
	// consumer options: "" (NewConsumer()), "limit-small", "limit-large", "meter"
	consumerOpt string
}

func cloneBatch(b *batchIn) *batchIn {
	c := &batchIn{signal: b.signal, kind: b.kind, items: b.items}
	switch b.signal {
	case "traces":
		c.td = ptrace.NewTraces()
		b.td.CopyTo(c.td)
	case "logs":
		c.ld = plog.NewLogs()
		b.ld.CopyTo(c.ld)
	default:
		c.md = pmetric.NewMetrics()
		b.md.CopyTo(c.md)
	}
	return c
}

// pairOut is what a pair produced: per batch the hash of the wire bytes and
// the hash of the decoded canonical multiset (or the error).
type pairOut struct {
	wire    []uint64
	decoded []uint64
	errs    []string
}

type pairState struct {
	plan     *pairPlan
	p        *arrow_record.Producer
	c        *arrow_record.Consumer
	encoded  []*colarspb.BatchArrowRecords
	nDecoded int
	closed   bool
	out      pairOut
	shared   *sharedOptions // nil: this stream builds its own option values
}

func itemsHash(items []Item) uint64 {
	ss := make([]string, len(items))
	for i, it := range items {
		ss[i] = it.String()
	}
	return core.HashBytes([]byte(sortedJoin(ss)))
}

// sharedOptions hands the same option *values* to every stream of a run that
// asks for the same configuration: one option list built once and passed to
// several NewProducerWithOptions / NewConsumer calls is how a receiver or an
// exporter creates its per-stream instances. An option must configure the
// instance it is applied to, not carry state of its own.
type sharedOptions struct {
	mu   sync.Mutex // the free-running mode creates the streams on their own goroutines
	prod map[string][]config.Option
	cons map[string][]arrow_record.Option
}

func consumerOptions(kind string) []arrow_record.Option {
	switch kind {
	case "limit-small":
		return []arrow_record.Option{arrow_record.WithMemoryLimit(48 << 10)}
	case "limit-large":
		return []arrow_record.Option{arrow_record.WithMemoryLimit(512 << 20)}
	case "meter":
		return []arrow_record.Option{arrow_record.WithMeterProvider(&recMeterProvider{})}
	}
	return nil
}

func (ps *pairState) create() {
	if sh := ps.shared; sh != nil {
		pk := fmt.Sprintf("%+v", ps.plan.opt)
		sh.mu.Lock()
		if _, ok := sh.prod[pk]; !ok {
			sh.prod[pk] = ps.plan.opt.build(nil, nil)
		}
		if _, ok := sh.cons[ps.plan.consumerOpt]; !ok {
			sh.cons[ps.plan.consumerOpt] = consumerOptions(ps.plan.consumerOpt)
		}
		po, co := sh.prod[pk], sh.cons[ps.plan.consumerOpt]
		sh.mu.Unlock()
		ps.p = arrow_record.NewProducerWithOptions(po...)
		ps.c = arrow_record.NewConsumer(co...)
		return
	}
	ps.p = arrow_record.NewProducerWithOptions(ps.plan.opt.build(nil, nil)...)
	ps.c = arrow_record.NewConsumer(consumerOptions(ps.plan.consumerOpt)...)
}

func (ps *pairState) encodeNext() {
	i := len(ps.encoded)
	b := cloneBatch(ps.plan.batches[i])
	bar, err, pan := encode(ps.p, b)
	if pan != "" || err != nil {
		ps.out.errs = append(ps.out.errs, fmt.Sprintf("encode %d: err=%v panic=%s", i, err, firstLine(pan)))
		ps.encoded = append(ps.encoded, nil)
		ps.out.wire = append(ps.out.wire, 0)
		return
	}
	raw, _ := proto.MarshalOptions{Deterministic: true}.Marshal(bar)
	ps.out.wire = append(ps.out.wire, core.HashBytes(raw))
	ps.encoded = append(ps.encoded, bar)
}

func (ps *pairState) decodeNext() {
	i := ps.nDecoded
	ps.nDecoded++
	bar := ps.encoded[i]
	if bar == nil {
		ps.out.decoded = append(ps.out.decoded, 0)
		return
	}
	got, _, err, pan := decode(ps.c, ps.plan.batches[i].signal, cloneBar(bar))
	if pan != "" || err != nil {
		ps.out.errs = append(ps.out.errs, fmt.Sprintf("decode %d: err=%v panic=%s", i, err, firstLine(pan)))
		ps.out.decoded = append(ps.out.decoded, 0)
		return
	}
	ps.out.decoded = append(ps.out.decoded, itemsHash(got))
}

func (ps *pairState) close() {
	_ = ps.p.Close()
	_ = ps.c.Close()
	ps.closed = true
}

func consumerOpts(plans []*pairPlan) []string {
	var out []string
	for _, p := range plans {
		out = append(out, p.consumerOpt)
	}
	return out
}

func firstLine(s string) string {
	if i := strings.IndexByte(s, '\n'); i >= 0 {
		return s[:i]
	}
	return s
}

func runSolo(plan *pairPlan) pairOut {
	ps := &pairState{plan: plan}
	ps.create()
	for range plan.batches {
		ps.encodeNext()
		ps.decodeNext()
	}
	ps.close()
	return ps.out
}

func sameOut(a, b pairOut) string {
	if fmt.Sprint(a.errs) != fmt.Sprint(b.errs) {
		return fmt.Sprintf("errors differ: alone %v, concurrently %v", a.errs, b.errs)
	}
	for i := range a.decoded {
		if i >= len(b.decoded) || a.decoded[i] != b.decoded[i] {
			return fmt.Sprintf("batch %d decodes to different telemetry", i)
		}
	}
	for i := range a.wire {
		if i >= len(b.wire) || a.wire[i] != b.wire[i] {
			return fmt.Sprintf("batch %d has different bytes on the wire", i)
		}
	}
	return ""
}

// runIndependence decides C16: (a) seeded interleaving at API-call
// granularity on one goroutine, compared with solo runs; (b) in free-running
// mode, the same pairs each in its own goroutine under the race detector.
func (r *run) runIndependence(e *Engine) {
	t := r.tape
	nPairs := 2 + t.Draw(core.Gen, 5)
	shareOpts := t.Chance(core.Ext, 1, 3)
	var plans []*pairPlan
	for k := 0; k < nPairs; k++ {
		pp := &pairPlan{opt: defaultOptions()}
		if t.Chance(core.Cfg, 2, 3) {
			pp.opt = drawOptionsX(t, true, true)
		}
		hp := &histPlan{inDomain: true, signals: []string{"traces", "logs", "metrics"}}
		if t.Chance(core.Cfg, 1, 2) {
			hp.signals = []string{hp.signals[t.Draw(core.Cfg, 3)]}
		}
		hp.nBatches = 1 + t.Weighted(core.Gen, 3, 3, 2, 2, 1)
		hp.ramp = []string{"", "small"}[t.Weighted(core.Gen, 4, 1)]
		if t.Chance(core.Cfg, 1, 3) {
			// a structurally poor stream (one attribute value type, no
			// resource / scope attributes): streams then differ in the
			// columns and records they have, and state shared between
			// instances - a cache keyed by a schema, a reused buffer -
			// shows as wrong telemetry rather than as the same telemetry
			hp.narrow = 1 + t.Draw(core.Cfg, 4)
			hp.nBatches += 2
		}
		for i := 0; i < hp.nBatches; i++ {
			b := r.genBatch(hp, i)
			pp.batches = append(pp.batches, b)
			pp.want = append(pp.want, itemsHash(b.canon()))
		}
		pp.consumerOpt = []string{"", "limit-small", "limit-large", "meter"}[t.Weighted(core.Cfg, 5, 2, 1, 1)]
		if shareOpts && k > 0 {
			// instances created from one option list, as a receiver / exporter does per stream
			if t.Chance(core.Ext, 1, 2) {
				pp.consumerOpt = plans[0].consumerOpt
			}
			if t.Chance(core.Ext, 1, 2) {
				pp.opt = plans[0].opt
			}
		}
		plans = append(plans, pp)
	}
	solo := make([]pairOut, nPairs)
	for k, pp := range plans {
		solo[k] = runSolo(pp)
	}
	states := make([]*pairState, nPairs)
	var shared *sharedOptions
	if shareOpts {
		shared = &sharedOptions{prod: map[string][]config.Option{}, cons: map[string][]arrow_record.Option{}}
		r.probe("streams_created_from_shared_option_values")
	}
	for k := range states {
		states[k] = &pairState{plan: plans[k], shared: shared}
	}
	if r.o.Race {
		var wg sync.WaitGroup
		for k := range states {
			wg.Add(1)
			go func(ps *pairState) {
				defer wg.Done()
				ps.create()
				for range ps.plan.batches {
					ps.encodeNext()
					ps.decodeNext()
				}
				ps.close()
			}(states[k])
		}
		wg.Wait()
		if rep := e.newRaceReport(); rep != "" {
			if strings.Contains(rep, "otel-arrow/pkg") || strings.Contains(rep, "arrow-go") {
				r.violate("C16", "data-race", rep)
			} else {
				r.out.Infra = "race report that does not involve the packages under test:\n" + rep
				return
			}
		}
	} else {
		// (a) tape-driven interleaving. Every stream runs on a goroutine of
		// its own; exactly one goroutine runs at a time and the tape decides
		// which. A goroutine is parked between API calls (create / encode /
		// decode / close) and - inside a call - at every yield point that the
		// driver inserts before statements that touch shared state through
		// sync or sync/atomic (overlay copies; the unchanged tree has no such
		// statement, so there the interleaving is at API-call granularity).
		if !r.coopInterleave(states) {
			return
		}
	}
	for k := range states {
		// a stream with a default (or generous) consumer must decode to what
		// the reference model says, whatever other instances exist or existed
		if plans[k].consumerOpt != "limit-small" {
			out := states[k].out
			bad := ""
			if len(out.errs) > 0 {
				bad = fmt.Sprintf("errors %v", out.errs)
			} else {
				for i := range plans[k].want {
					if i >= len(out.decoded) || out.decoded[i] != plans[k].want[i] {
						bad = fmt.Sprintf("batch %d does not decode to the encoded telemetry", i)
						break
					}
				}
			}
			if bad != "" {
				r.feats["pairs"] = fmt.Sprint(nPairs)
				r.violate("C16", "same-as-solo", fmt.Sprintf("stream %d of %d (consumer option %q; other streams use %v): %s", k, nPairs, plans[k].consumerOpt, consumerOpts(plans), bad))
				break
			}
		}
		if d := sameOut(solo[k], states[k].out); d != "" {
			r.feats["pairs"] = fmt.Sprint(nPairs)
			r.violate("C16", "same-as-solo", fmt.Sprintf("stream %d of %d (options %+v): %s", k, nPairs, plans[k].opt, d))
			break
		}
	}
	r.out.NonTrivial = nPairs >= 2
	if r.o.Render {
		var ps []map[string]any
		for _, pp := range plans {
			ps = append(ps, map[string]any{"options": pp.opt, "batches": len(pp.batches)})
		}
		r.out.Scenario = map[string]any{"property": "C16", "pairs": ps, "mode": map[bool]string{true: "parallel goroutines under -race", false: "tape-driven interleaving of API calls"}[r.o.Race]}
	}
}

// coopEvt is what a stream goroutine reports to the scheduler: it parked at a
// yield point inside an API call (site != ""), or it finished the call.
type coopEvt struct {
	k    int
	site string
}

// coopInterleave runs the streams under the cooperative scheduler; false
// means infrastructure trouble (r.out.Infra is set).
func (r *run) coopInterleave(states []*pairState) bool {
	t := r.tape
	n := len(states)
	cmd := make([]chan string, n)
	resume := make([]chan struct{}, n)
	events := make(chan coopEvt)
	var gmu sync.Mutex
	goids := map[uint64]int{}
	for k := range states {
		cmd[k] = make(chan string)
		resume[k] = make(chan struct{})
	}
	runtime.SetVerifYield(func(site string) {
		gmu.Lock()
		k, ok := goids[runtime.VerifGoid()]
		gmu.Unlock()
		if !ok {
			return // not a stream goroutine (e.g. the solo runs on the scheduler's goroutine)
		}
		events <- coopEvt{k, site}
		<-resume[k]
	})
	defer runtime.SetVerifYield(nil)
	var wg sync.WaitGroup
	for k := range states {
		wg.Add(1)
		go func(k int, ps *pairState) {
			defer wg.Done()
			gmu.Lock()
			goids[runtime.VerifGoid()] = k
			gmu.Unlock()
			events <- coopEvt{k, ""} // registered
			for op := range cmd[k] {
				switch op {
				case "create":
					ps.create()
				case "encode":
					ps.encodeNext()
				case "decode":
					ps.decodeNext()
				case "close":
					ps.close()
				}
				events <- coopEvt{k, ""}
			}
		}(k, states[k])
	}
	stop := func() {
		for k := range cmd {
			close(cmd[k])
		}
	}
	wait := func() (coopEvt, bool) {
		select {
		case ev := <-events:
			return ev, true
		case <-time.After(120 * time.Second):
			r.out.Infra = "C16 scheduler: the running stream goroutine neither reached a yield point nor finished its call within 120 s (blocked on something the simulator does not control)"
			return coopEvt{}, false
		}
	}
	for range states {
		if _, ok := wait(); !ok {
			return false
		}
	}
	created := make([]bool, n)
	midOp := make([]string, n) // site at which the stream is parked inside a call, "" if between calls
	midKind := make([]string, n)
	inner := 0
	for {
		type op struct {
			k    int
			kind string
		}
		var ops []op
		for k, ps := range states {
			switch {
			case midOp[k] != "":
				ops = append(ops, op{k, "resume"})
			case !created[k]:
				ops = append(ops, op{k, "create"})
			case ps.closed:
			default:
				if len(ps.encoded) < len(ps.plan.batches) {
					ops = append(ops, op{k, "encode"})
				}
				if ps.nDecoded < len(ps.encoded) {
					ops = append(ops, op{k, "decode"})
				}
				if len(ps.encoded) == len(ps.plan.batches) && ps.nDecoded == len(ps.encoded) {
					ops = append(ops, op{k, "close"})
				}
			}
		}
		if len(ops) == 0 {
			break
		}
		o := ops[t.Draw(core.Sched, len(ops))]
		r.batch++
		if o.kind == "resume" {
			r.logf("step %d: pair %d continues its %s from %s", r.batch, o.k, midKind[o.k], midOp[o.k])
			r.sig.Int(int64(o.k)).Str("resume")
			resume[o.k] <- struct{}{}
		} else {
			r.logf("step %d: pair %d %s", r.batch, o.k, o.kind)
			r.sig.Int(int64(o.k)).Str(o.kind)
			midKind[o.k] = o.kind
			cmd[o.k] <- o.kind
		}
		ev, ok := wait()
		if !ok {
			return false
		}
		if ev.k != o.k {
			r.out.Infra = fmt.Sprintf("C16 scheduler: pair %d reported while pair %d was running", ev.k, o.k)
			return false
		}
		midOp[o.k] = ev.site
		if ev.site != "" {
			inner++
			r.sig.Str(ev.site)
			if inner > 200000 {
				r.out.Infra = "C16 scheduler: more than 200,000 yield points in one run"
				return false
			}
		} else if midKind[o.k] == "create" {
			created[o.k] = true
		}
	}
	stop()
	wg.Wait()
	if inner > 0 {
		r.out.Probes["yield_points_inside_api_calls"] += inner
	}
	return true
}

func (e *Engine) newRaceReport() string {
	if e.RaceLog == "" {
		return ""
	}
	matches, _ := filepath.Glob(e.RaceLog + ".*")
	var sb strings.Builder
	var total int64
	for _, m := range matches {
		b, err := os.ReadFile(m)
		if err != nil {
			continue
		}
		total += int64(len(b))
		sb.Write(b)
	}
	if total <= e.raceOff {
		return ""
	}
	all := sb.String()
	rep := all[e.raceOff:]
	e.raceOff = total
	if len(rep) > 6000 {
		rep = rep[:6000] + "\n...(truncated)"
	}
	return rep
}
