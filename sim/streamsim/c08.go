package streamsim

import (
	"fmt"

	"go.opentelemetry.io/collector/pdata/plog"
	"go.opentelemetry.io/collector/pdata/pmetric"
	"go.opentelemetry.io/collector/pdata/ptrace"

	"github.com/open-telemetry/otel-arrow/pkg/otel/arrow_record"

	"verif/core"
)

// overLimitKinds are batches with more parents than the protocol's 16-bit ids
// allow. The property says such inputs are refused with an error.
var overLimitKinds = []string{"spans_with_attrs", "spans_with_events", "spans_with_links", "spans_mixed_related", "logs_with_attrs", "metrics", "resources", "scopes"}

const overN = 65537

// boundaryBatch is the largest batch inside the round-trip domain: exactly
// 65,535 id-bearing parents of one table.
func boundaryBatch(signal string) *batchIn {
	var b *batchIn
	switch signal {
	case "traces":
		b = bigBatch("spans_with_attrs", 65535)
	case "logs":
		b = bigBatch("logs_with_attrs", 65535)
	default:
		b = bigBatch("metrics", 65535)
	}
	b.kind = "boundary65535"
	b.items = 65535
	return b
}

func overLimitBatch(kind string) *batchIn { return bigBatch(kind, overN) }

func bigBatch(kind string, overN int) *batchIn {
	b := &batchIn{kind: "overlimit:" + kind, items: overN}
	switch kind {
	case "spans_with_attrs":
		b.signal = "traces"
		b.td = ptrace.NewTraces()
		ss := b.td.ResourceSpans().AppendEmpty().ScopeSpans().AppendEmpty().Spans()
		ss.EnsureCapacity(overN)
		for i := 0; i < overN; i++ {
			sp := ss.AppendEmpty()
			sp.SetName("s")
			sp.Attributes().PutInt("i", int64(i))
		}
	case "spans_mixed_related":
		// more than 65,536 spans that need an id, but fewer than 65,536 of each
		// kind of related data (attributes / events / links)
		b.signal = "traces"
		b.td = ptrace.NewTraces()
		ss := b.td.ResourceSpans().AppendEmpty().ScopeSpans().AppendEmpty().Spans()
		ss.EnsureCapacity(overN + 2000)
		for i := 0; i < overN+2000; i++ {
			sp := ss.AppendEmpty()
			sp.SetName("s")
			switch i % 3 {
			case 0:
				sp.Attributes().PutInt("i", int64(i))
			case 1:
				sp.Events().AppendEmpty().SetName("e")
			default:
				sp.Links().AppendEmpty().SetSpanID([8]byte{1})
			}
		}
	case "spans_with_events", "spans_with_links":
		b.signal = "traces"
		b.td = ptrace.NewTraces()
		ss := b.td.ResourceSpans().AppendEmpty().ScopeSpans().AppendEmpty().Spans()
		ss.EnsureCapacity(overN)
		for i := 0; i < overN; i++ {
			sp := ss.AppendEmpty()
			sp.SetName("s")
			if kind == "spans_with_events" {
				sp.Events().AppendEmpty().SetName("e")
			} else {
				sp.Links().AppendEmpty().SetSpanID([8]byte{1})
			}
		}
	case "logs_with_attrs":
		b.signal = "logs"
		b.ld = plog.NewLogs()
		ls := b.ld.ResourceLogs().AppendEmpty().ScopeLogs().AppendEmpty().LogRecords()
		ls.EnsureCapacity(overN)
		for i := 0; i < overN; i++ {
			lr := ls.AppendEmpty()
			lr.Body().SetStr("b")
			lr.Attributes().PutInt("i", int64(i))
		}
	case "metrics":
		b.signal = "metrics"
		b.md = pmetric.NewMetrics()
		ms := b.md.ResourceMetrics().AppendEmpty().ScopeMetrics().AppendEmpty().Metrics()
		ms.EnsureCapacity(overN)
		for i := 0; i < overN; i++ {
			m := ms.AppendEmpty()
			m.SetName("m")
			m.SetEmptyGauge().DataPoints().AppendEmpty().SetIntValue(int64(i))
		}
	case "resources":
		b.signal = "traces"
		b.td = ptrace.NewTraces()
		b.td.ResourceSpans().EnsureCapacity(overN)
		for i := 0; i < overN; i++ {
			rs := b.td.ResourceSpans().AppendEmpty()
			rs.Resource().Attributes().PutInt("r", int64(i))
			rs.ScopeSpans().AppendEmpty().Spans().AppendEmpty().SetName("s")
		}
	case "scopes":
		b.signal = "logs"
		b.ld = plog.NewLogs()
		sls := b.ld.ResourceLogs().AppendEmpty().ScopeLogs()
		sls.EnsureCapacity(overN)
		for i := 0; i < overN; i++ {
			sl := sls.AppendEmpty()
			sl.Scope().Attributes().PutInt("s", int64(i))
			sl.LogRecords().AppendEmpty().Body().SetStr("b")
		}
	}
	return b
}

// runProducerOnly decides C08: the producer alone, unrestricted inputs after
// arbitrary earlier batches, and over-limit batches.
func (r *run) runProducerOnly() {
	t := r.tape
	hp := &histPlan{inDomain: false, signals: []string{"traces", "logs", "metrics"}}
	opt := defaultOptions()
	if t.Chance(core.Cfg, 1, 2) {
		opt = drawOptions(t, true)
	}
	for k, v := range opt.Features() {
		r.feats[k] = v
	}
	hp.nBatches = 1 + t.Weighted(core.Gen, 3, 3, 3, 2, 2, 1, 1, 1)
	hp.ramp = []string{"", "small"}[t.Weighted(core.Gen, 5, 1)]
	overRate := 60
	if r.o.Tier == "thorough" {
		overRate = 200
	}
	over := ""
	overAt := -1
	if t.Chance(core.Fault, 1, overRate) {
		over = overLimitKinds[t.Draw(core.Fault, len(overLimitKinds))]
		// the over-limit batch may come anywhere in the history: what follows a
		// refused batch is "after arbitrary earlier batches" too
		overAt = t.Draw(core.Fault, hp.nBatches)
		if t.Chance(core.Fault, 1, 2) {
			overAt = hp.nBatches - 1
		} else if hp.nBatches < 3 {
			hp.nBatches += 2
		}
	}
	obs := &obsRec{r: r}
	var producer *arrow_record.Producer
	func() {
		defer func() {
			if p := recover(); p != nil {
				r.violate("C08", "no-panic", fmt.Sprintf("NewProducerWithOptions panicked: %v", p))
			}
		}()
		producer = arrow_record.NewProducerWithOptions(opt.build(nil, obs)...)
	}()
	if producer == nil {
		return
	}
	lastJSON := ""
	for i := 0; i < hp.nBatches; i++ {
		r.batch = i
		var b *batchIn
		last := i == overAt
		if over != "" && last {
			b = overLimitBatch(over)
			r.fault("overlimit_" + over)
			r.feats["overlimit"] = over
		} else {
			b = r.genBatch(hp, i)
		}
		if r.o.Render {
			lastJSON = b.json()
		}
		_, err, pan := encode(producer, b)
		evs := obs.take()
		if len(evs) > 0 && i > 0 {
			r.schemaEvents++
		}
		r.logf("batch %d: %s %s items=%d events=%v err=%v", i, b.signal, b.kind, b.items, evs, err != nil)
		r.sig.Str(b.signal).Str(b.kind).Str(fmt.Sprint(evs)).Str(fmt.Sprint(err != nil))
		if pan != "" {
			r.violate("C08", "no-panic", fmt.Sprintf("producer panicked on batch %d (%s, %s): %s", i, b.signal, b.kind, pan))
			break
		}
		if over != "" && last {
			if err == nil {
				r.violate("C08", "overlimit-refused", fmt.Sprintf("batch %d has %d %s (more parents than the protocol's 16-bit ids allow) but the producer returned a batch instead of an error", i, overN, over))
			} else {
				r.probe("overlimit_refused_with_error")
			}
		}
		if err != nil {
			// the producer returned an error: allowed; the stream goes on with
			// the next batch, which must again give a batch or an error
			r.probe("encode_error")
			if i < hp.nBatches-1 {
				r.probe("batches_after_a_refused_batch")
			}
		}
	}
	func() {
		defer func() {
			if p := recover(); p != nil {
				r.violate("C08", "no-panic", fmt.Sprintf("Producer.Close panicked: %v", p))
			}
		}()
		_ = producer.Close()
	}()
	r.out.NonTrivial = hp.nBatches >= 2 && r.schemaEvents > 0
	if r.o.Render {
		r.out.Scenario = map[string]any{"property": "C08", "options": opt, "batches": hp.nBatches, "overlimit": over, "last_input_otlp_json": lastJSON}
	}
}

// denseBatch is a batch of n items that all carry related data (attributes,
// an event and a link; an attribute; a data point with an attribute and an
// exemplar), used for "marathon" streams whose cumulative number of
// id-bearing parents exceeds the 16-bit id range although every single batch
// is far below it: per-batch counters that are not reset show only there.
func denseBatch(signal string, n, seq int) *batchIn {
	b := &batchIn{signal: signal, kind: "dense", items: n}
	switch signal {
	case "traces":
		b.td = ptrace.NewTraces()
		rs := b.td.ResourceSpans().AppendEmpty()
		rs.Resource().Attributes().PutStr("service.name", "marathon")
		ss := rs.ScopeSpans().AppendEmpty().Spans()
		ss.EnsureCapacity(n)
		for i := 0; i < n; i++ {
			sp := ss.AppendEmpty()
			sp.SetName("op")
			sp.SetSpanID([8]byte{byte(i), byte(i >> 8), byte(seq), 1})
			sp.Attributes().PutInt("i", int64(i%7))
			ev := sp.Events().AppendEmpty()
			ev.SetName("e")
			ev.Attributes().PutInt("k", int64(i%3))
			ln := sp.Links().AppendEmpty()
			ln.SetSpanID([8]byte{1})
			ln.Attributes().PutStr("l", "x")
		}
	case "logs":
		b.ld = plog.NewLogs()
		rl := b.ld.ResourceLogs().AppendEmpty()
		rl.Resource().Attributes().PutStr("service.name", "marathon")
		ls := rl.ScopeLogs().AppendEmpty().LogRecords()
		ls.EnsureCapacity(n)
		for i := 0; i < n; i++ {
			lr := ls.AppendEmpty()
			lr.Body().SetStr("b")
			lr.SetTimestamp(1)
			lr.Attributes().PutInt("i", int64(i%7))
		}
	default:
		b.md = pmetric.NewMetrics()
		rm := b.md.ResourceMetrics().AppendEmpty()
		rm.Resource().Attributes().PutStr("service.name", "marathon")
		ms := rm.ScopeMetrics().AppendEmpty().Metrics()
		ms.EnsureCapacity(n)
		for i := 0; i < n; i++ {
			m := ms.AppendEmpty()
			m.SetName("m")
			dp := m.SetEmptyGauge().DataPoints().AppendEmpty()
			dp.SetIntValue(int64(i % 5))
			dp.Attributes().PutInt("i", int64(i%7))
			ex := dp.Exemplars().AppendEmpty()
			ex.SetIntValue(1)
			ex.FilteredAttributes().PutStr("x", "y")
		}
	}
	return b
}

// fatBatch: n log records with unique bodies of about size bytes each (free
// text). A few of these per stream make a dictionary that is small in entries
// but large in bytes.
func fatBatch(n, size, seq int) *batchIn {
	b := &batchIn{signal: "logs", kind: "fat", items: n}
	b.ld = plog.NewLogs()
	rl := b.ld.ResourceLogs().AppendEmpty()
	rl.Resource().Attributes().PutStr("service.name", "fat")
	ls := rl.ScopeLogs().AppendEmpty().LogRecords()
	ls.EnsureCapacity(n)
	pad := make([]byte, size)
	for i := range pad {
		pad[i] = byte('a' + i%26)
	}
	for i := 0; i < n; i++ {
		lr := ls.AppendEmpty()
		lr.SetTimestamp(1)
		lr.Body().SetStr(fmt.Sprintf("free text %06d-%06d %s", seq, i, pad))
	}
	return b
}
