//go:build race

package streamsim

const raceEnabled = true
