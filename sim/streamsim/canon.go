package streamsim

import (
	"encoding/hex"
	"fmt"
	"math"
	"sort"
	"strconv"
	"strings"

	"go.opentelemetry.io/collector/pdata/pcommon"
	"go.opentelemetry.io/collector/pdata/plog"
	"go.opentelemetry.io/collector/pdata/pmetric"
	"go.opentelemetry.io/collector/pdata/ptrace"
)

// Reference model. A batch is flattened to a multiset of canonical items; a
// canonical item is the triple (resource, scope, span | log record | metric
// with its multiset of data points) rendered to a string over exactly the
// fields of docs/data_model.md. Only the normalisations the properties
// document are applied:
//   - attributes with an empty key or an unset value are dropped;
//   - an empty byte string nested inside a list or map value equals unset;
//   - -0.0 equals 0.0 and all NaNs are equal;
//   - the grouping and order of resources, scopes, records, events, links
//     (and data points, exemplars, quantiles) do not matter.
// It is written directly on pdata and shares no code with the repository's
// assert.Equiv, ResourceID or ScopeID.

func canonF(f float64) string {
	if math.IsNaN(f) {
		return "NaN"
	}
	if f == 0 {
		return "0"
	}
	return strconv.FormatUint(math.Float64bits(f), 16)
}

func canonVal(b *strings.Builder, v pcommon.Value, nested bool) {
	switch v.Type() {
	case pcommon.ValueTypeEmpty:
		b.WriteString("E")
	case pcommon.ValueTypeStr:
		b.WriteString("S")
		b.WriteString(strconv.Quote(v.Str()))
	case pcommon.ValueTypeInt:
		b.WriteString("I")
		b.WriteString(strconv.FormatInt(v.Int(), 10))
	case pcommon.ValueTypeDouble:
		b.WriteString("D")
		b.WriteString(canonF(v.Double()))
	case pcommon.ValueTypeBool:
		if v.Bool() {
			b.WriteString("Bt")
		} else {
			b.WriteString("Bf")
		}
	case pcommon.ValueTypeBytes:
		raw := v.Bytes().AsRaw()
		if nested && len(raw) == 0 {
			b.WriteString("E")
			return
		}
		b.WriteString("Y")
		b.WriteString(hex.EncodeToString(raw))
	case pcommon.ValueTypeSlice:
		b.WriteString("L[")
		sl := v.Slice()
		for i := 0; i < sl.Len(); i++ {
			canonVal(b, sl.At(i), true)
			b.WriteString(",")
		}
		b.WriteString("]")
	case pcommon.ValueTypeMap:
		b.WriteString("M{")
		var ents []string
		v.Map().Range(func(k string, x pcommon.Value) bool {
			var eb strings.Builder
			eb.WriteString(strconv.Quote(k))
			eb.WriteString(":")
			canonVal(&eb, x, true)
			ents = append(ents, eb.String())
			return true
		})
		sort.Strings(ents)
		for _, e := range ents {
			b.WriteString(e)
			b.WriteString(",")
		}
		b.WriteString("}")
	}
}

func canonAttrs(b *strings.Builder, m pcommon.Map) {
	var ents []string
	m.Range(func(k string, v pcommon.Value) bool {
		if k == "" || v.Type() == pcommon.ValueTypeEmpty {
			return true
		}
		var eb strings.Builder
		eb.WriteString(strconv.Quote(k))
		eb.WriteString("=")
		canonVal(&eb, v, false)
		ents = append(ents, eb.String())
		return true
	})
	sort.Strings(ents)
	b.WriteString("{")
	for _, e := range ents {
		b.WriteString(e)
		b.WriteString(";")
	}
	b.WriteString("}")
}

func canonResource(r pcommon.Resource, schemaURL string) string {
	var b strings.Builder
	b.WriteString("RES attrs=")
	canonAttrs(&b, r.Attributes())
	fmt.Fprintf(&b, " dropped=%d schema=%q", r.DroppedAttributesCount(), schemaURL)
	return b.String()
}

func canonScope(s pcommon.InstrumentationScope, schemaURL string) string {
	var b strings.Builder
	fmt.Fprintf(&b, "SCOPE name=%q version=%q attrs=", s.Name(), s.Version())
	canonAttrs(&b, s.Attributes())
	fmt.Fprintf(&b, " dropped=%d schema=%q", s.DroppedAttributesCount(), schemaURL)
	return b.String()
}

func sortedJoin(xs []string) string {
	sort.Strings(xs)
	return strings.Join(xs, " | ")
}

func canonSpan(sp ptrace.Span) string {
	var b strings.Builder
	tid, sid, pid := sp.TraceID(), sp.SpanID(), sp.ParentSpanID()
	fmt.Fprintf(&b, "SPAN trace=%x span=%x parent=%x state=%q name=%q kind=%d start=%d end=%d dattr=%d devt=%d dlnk=%d status=%d msg=%q attrs=",
		tid[:], sid[:], pid[:], sp.TraceState().AsRaw(), sp.Name(), sp.Kind(), uint64(sp.StartTimestamp()), uint64(sp.EndTimestamp()),
		sp.DroppedAttributesCount(), sp.DroppedEventsCount(), sp.DroppedLinksCount(), sp.Status().Code(), sp.Status().Message())
	canonAttrs(&b, sp.Attributes())
	var evs []string
	for i := 0; i < sp.Events().Len(); i++ {
		ev := sp.Events().At(i)
		var eb strings.Builder
		fmt.Fprintf(&eb, "EV time=%d name=%q dattr=%d attrs=", uint64(ev.Timestamp()), ev.Name(), ev.DroppedAttributesCount())
		canonAttrs(&eb, ev.Attributes())
		evs = append(evs, eb.String())
	}
	b.WriteString(" events=[" + sortedJoin(evs) + "]")
	var lks []string
	for i := 0; i < sp.Links().Len(); i++ {
		ln := sp.Links().At(i)
		var lb strings.Builder
		lt, ls := ln.TraceID(), ln.SpanID()
		fmt.Fprintf(&lb, "LINK trace=%x span=%x state=%q dattr=%d attrs=", lt[:], ls[:], ln.TraceState().AsRaw(), ln.DroppedAttributesCount())
		canonAttrs(&lb, ln.Attributes())
		lks = append(lks, lb.String())
	}
	b.WriteString(" links=[" + sortedJoin(lks) + "]")
	return b.String()
}

// Item is one canonical item, kept in three parts so that a mismatch can say
// which part differs.
type Item struct{ Res, Scope, Body string }

func (it Item) String() string { return it.Res + " / " + it.Scope + " / " + it.Body }

func CanonTraces(td ptrace.Traces) []Item {
	var out []Item
	for i := 0; i < td.ResourceSpans().Len(); i++ {
		rs := td.ResourceSpans().At(i)
		r := canonResource(rs.Resource(), rs.SchemaUrl())
		for j := 0; j < rs.ScopeSpans().Len(); j++ {
			ss := rs.ScopeSpans().At(j)
			s := canonScope(ss.Scope(), ss.SchemaUrl())
			for k := 0; k < ss.Spans().Len(); k++ {
				out = append(out, Item{r, s, canonSpan(ss.Spans().At(k))})
			}
		}
	}
	return out
}

func canonLog(lr plog.LogRecord) string {
	var b strings.Builder
	tid, sid := lr.TraceID(), lr.SpanID()
	fmt.Fprintf(&b, "LOG time=%d observed=%d trace=%x span=%x sevnum=%d sevtext=%q dattr=%d flags=%d body=",
		uint64(lr.Timestamp()), uint64(lr.ObservedTimestamp()), tid[:], sid[:], lr.SeverityNumber(), lr.SeverityText(), lr.DroppedAttributesCount(), uint32(lr.Flags()))
	canonVal(&b, lr.Body(), false)
	b.WriteString(" attrs=")
	canonAttrs(&b, lr.Attributes())
	return b.String()
}

func CanonLogs(ld plog.Logs) []Item {
	var out []Item
	for i := 0; i < ld.ResourceLogs().Len(); i++ {
		rl := ld.ResourceLogs().At(i)
		r := canonResource(rl.Resource(), rl.SchemaUrl())
		for j := 0; j < rl.ScopeLogs().Len(); j++ {
			sl := rl.ScopeLogs().At(j)
			s := canonScope(sl.Scope(), sl.SchemaUrl())
			for k := 0; k < sl.LogRecords().Len(); k++ {
				out = append(out, Item{r, s, canonLog(sl.LogRecords().At(k))})
			}
		}
	}
	return out
}

func canonExemplars(es pmetric.ExemplarSlice) string {
	var xs []string
	for i := 0; i < es.Len(); i++ {
		ex := es.At(i)
		var b strings.Builder
		tid, sid := ex.TraceID(), ex.SpanID()
		fmt.Fprintf(&b, "EX time=%d ", uint64(ex.Timestamp()))
		switch ex.ValueType() {
		case pmetric.ExemplarValueTypeInt:
			fmt.Fprintf(&b, "int=%d", ex.IntValue())
		case pmetric.ExemplarValueTypeDouble:
			fmt.Fprintf(&b, "double=%s", canonF(ex.DoubleValue()))
		default:
			b.WriteString("novalue")
		}
		fmt.Fprintf(&b, " span=%x trace=%x attrs=", sid[:], tid[:])
		canonAttrs(&b, ex.FilteredAttributes())
		xs = append(xs, b.String())
	}
	return "[" + sortedJoin(xs) + "]"
}

func canonU64s(xs []uint64) string { return fmt.Sprint(xs) }
func canonF64s(xs []float64) string {
	ss := make([]string, len(xs))
	for i, x := range xs {
		ss[i] = canonF(x)
	}
	return "[" + strings.Join(ss, " ") + "]"
}

func optF(has bool, v float64) string {
	if !has {
		return "absent"
	}
	return canonF(v)
}

func canonNumberDP(dp pmetric.NumberDataPoint) string {
	var b strings.Builder
	fmt.Fprintf(&b, "NDP start=%d time=%d ", uint64(dp.StartTimestamp()), uint64(dp.Timestamp()))
	switch dp.ValueType() {
	case pmetric.NumberDataPointValueTypeInt:
		fmt.Fprintf(&b, "int=%d", dp.IntValue())
	case pmetric.NumberDataPointValueTypeDouble:
		fmt.Fprintf(&b, "double=%s", canonF(dp.DoubleValue()))
	default:
		b.WriteString("novalue")
	}
	fmt.Fprintf(&b, " flags=%d attrs=", uint32(dp.Flags()))
	canonAttrs(&b, dp.Attributes())
	b.WriteString(" exemplars=" + canonExemplars(dp.Exemplars()))
	return b.String()
}

func canonMetric(m pmetric.Metric) string {
	var b strings.Builder
	fmt.Fprintf(&b, "METRIC name=%q desc=%q unit=%q type=%s", m.Name(), m.Description(), m.Unit(), m.Type())
	var dps []string
	switch m.Type() {
	case pmetric.MetricTypeGauge:
		for i := 0; i < m.Gauge().DataPoints().Len(); i++ {
			dps = append(dps, canonNumberDP(m.Gauge().DataPoints().At(i)))
		}
	case pmetric.MetricTypeSum:
		fmt.Fprintf(&b, " temporality=%d monotonic=%v", m.Sum().AggregationTemporality(), m.Sum().IsMonotonic())
		for i := 0; i < m.Sum().DataPoints().Len(); i++ {
			dps = append(dps, canonNumberDP(m.Sum().DataPoints().At(i)))
		}
	case pmetric.MetricTypeHistogram:
		fmt.Fprintf(&b, " temporality=%d", m.Histogram().AggregationTemporality())
		for i := 0; i < m.Histogram().DataPoints().Len(); i++ {
			dp := m.Histogram().DataPoints().At(i)
			var d strings.Builder
			fmt.Fprintf(&d, "HDP start=%d time=%d count=%d sum=%s min=%s max=%s buckets=%s bounds=%s flags=%d attrs=",
				uint64(dp.StartTimestamp()), uint64(dp.Timestamp()), dp.Count(), optF(dp.HasSum(), dp.Sum()), optF(dp.HasMin(), dp.Min()), optF(dp.HasMax(), dp.Max()),
				canonU64s(dp.BucketCounts().AsRaw()), canonF64s(dp.ExplicitBounds().AsRaw()), uint32(dp.Flags()))
			canonAttrs(&d, dp.Attributes())
			d.WriteString(" exemplars=" + canonExemplars(dp.Exemplars()))
			dps = append(dps, d.String())
		}
	case pmetric.MetricTypeExponentialHistogram:
		fmt.Fprintf(&b, " temporality=%d", m.ExponentialHistogram().AggregationTemporality())
		for i := 0; i < m.ExponentialHistogram().DataPoints().Len(); i++ {
			dp := m.ExponentialHistogram().DataPoints().At(i)
			var d strings.Builder
			fmt.Fprintf(&d, "EHDP start=%d time=%d count=%d sum=%s min=%s max=%s scale=%d zero=%d pos=(%d %s) neg=(%d %s) flags=%d attrs=",
				uint64(dp.StartTimestamp()), uint64(dp.Timestamp()), dp.Count(), optF(dp.HasSum(), dp.Sum()), optF(dp.HasMin(), dp.Min()), optF(dp.HasMax(), dp.Max()),
				dp.Scale(), dp.ZeroCount(), dp.Positive().Offset(), canonU64s(dp.Positive().BucketCounts().AsRaw()),
				dp.Negative().Offset(), canonU64s(dp.Negative().BucketCounts().AsRaw()), uint32(dp.Flags()))
			canonAttrs(&d, dp.Attributes())
			d.WriteString(" exemplars=" + canonExemplars(dp.Exemplars()))
			dps = append(dps, d.String())
		}
	case pmetric.MetricTypeSummary:
		for i := 0; i < m.Summary().DataPoints().Len(); i++ {
			dp := m.Summary().DataPoints().At(i)
			var d strings.Builder
			var qs []string
			for q := 0; q < dp.QuantileValues().Len(); q++ {
				qv := dp.QuantileValues().At(q)
				qs = append(qs, fmt.Sprintf("q%s=%s", canonF(qv.Quantile()), canonF(qv.Value())))
			}
			fmt.Fprintf(&d, "SDP start=%d time=%d count=%d sum=%s flags=%d quantiles=[%s] attrs=",
				uint64(dp.StartTimestamp()), uint64(dp.Timestamp()), dp.Count(), canonF(dp.Sum()), uint32(dp.Flags()), sortedJoin(qs))
			canonAttrs(&d, dp.Attributes())
			dps = append(dps, d.String())
		}
	}
	b.WriteString(" points=[" + sortedJoin(dps) + "]")
	return b.String()
}

func CanonMetrics(md pmetric.Metrics) []Item {
	var out []Item
	for i := 0; i < md.ResourceMetrics().Len(); i++ {
		rm := md.ResourceMetrics().At(i)
		r := canonResource(rm.Resource(), rm.SchemaUrl())
		for j := 0; j < rm.ScopeMetrics().Len(); j++ {
			sm := rm.ScopeMetrics().At(j)
			s := canonScope(sm.Scope(), sm.SchemaUrl())
			for k := 0; k < sm.Metrics().Len(); k++ {
				out = append(out, Item{r, s, canonMetric(sm.Metrics().At(k))})
			}
		}
	}
	return out
}

// DiffItems compares two multisets of canonical items. It returns "" when
// they are equal, otherwise a description naming the first item that is
// missing or extra and, when an item with the same body exists on the other
// side, which part (resource / scope) differs.
func DiffItems(want, got []Item) string {
	d, _ := DiffItemsClass(want, got)
	return d
}

// DiffItemsClass also returns a short class of the difference ("resource",
// "scope", "body:<field>", "count") used to group violations.
func DiffItemsClass(want, got []Item) (string, string) {
	count := map[Item]int{}
	for _, it := range want {
		count[it]++
	}
	for _, it := range got {
		count[it]--
	}
	var missing, extra []Item
	for it, n := range count {
		for ; n > 0; n-- {
			missing = append(missing, it)
		}
		for ; n < 0; n++ {
			extra = append(extra, it)
		}
	}
	if len(missing) == 0 && len(extra) == 0 {
		return "", ""
	}
	class := "count"
	sort.Slice(missing, func(i, j int) bool { return missing[i].String() < missing[j].String() })
	sort.Slice(extra, func(i, j int) bool { return extra[i].String() < extra[j].String() })
	var b strings.Builder
	fmt.Fprintf(&b, "encoded %d items, decoded %d; %d encoded items have no equal decoded item, %d decoded items were never encoded.", len(want), len(got), len(missing), len(extra))
	if len(missing) > 0 {
		m := missing[0]
		fmt.Fprintf(&b, "\n first encoded item without match:\n   %s\n   %s\n   %s", m.Res, m.Scope, clip(m.Body))
		for _, e := range extra {
			if e.Body == m.Body {
				if e.Res != m.Res {
					fmt.Fprintf(&b, "\n the same record was decoded under a different RESOURCE:\n   %s", e.Res)
					class = "resource"
				}
				if e.Scope != m.Scope {
					fmt.Fprintf(&b, "\n the same record was decoded under a different SCOPE:\n   %s", e.Scope)
					if class != "resource" {
						class = "scope"
					}
				}
				return b.String(), class
			}
		}
		// closest decoded item under the same resource and scope
		for _, e := range extra {
			if e.Res == m.Res && e.Scope == m.Scope {
				fmt.Fprintf(&b, "\n a decoded item under the same resource and scope differs in its own fields:\n   %s\n   first difference: %s", clip(e.Body), firstDiff(m.Body, e.Body))
				return b.String(), "body:" + diffField(m.Body, e.Body)
			}
		}
	}
	if len(extra) > 0 {
		e := extra[0]
		fmt.Fprintf(&b, "\n first decoded item that was never encoded:\n   %s\n   %s\n   %s", e.Res, e.Scope, clip(e.Body))
	}
	return b.String(), class
}

// diffField names the field in which two canonical bodies first differ: the
// last " name=" token before the first differing byte, prefixed by the
// innermost record kind (SPAN, EV, LINK, LOG, METRIC, NDP, HDP, EHDP, SDP, EX).
func diffField(a, b string) string {
	n := len(a)
	if len(b) < n {
		n = len(b)
	}
	i := 0
	for i < n && a[i] == b[i] {
		i++
	}
	pre := a[:i]
	eq := strings.LastIndex(pre, "=")
	if eq < 0 {
		return "?"
	}
	sp := strings.LastIndexAny(pre[:eq], " [(")
	field := pre[sp+1 : eq]
	kind := ""
	for _, k := range []string{"SPAN ", "EV ", "LINK ", "LOG ", "METRIC ", "NDP ", "HDP ", "EHDP ", "SDP ", "EX "} {
		if j := strings.LastIndex(pre, k); j >= 0 {
			if kind == "" || j > strings.LastIndex(pre, kind) {
				kind = k
			}
		}
	}
	return strings.TrimSpace(kind) + "." + field
}

func clip(s string) string {
	if len(s) > 900 {
		return s[:900] + "...(clipped)"
	}
	return s
}

func firstDiff(a, b string) string {
	n := len(a)
	if len(b) < n {
		n = len(b)
	}
	i := 0
	for i < n && a[i] == b[i] {
		i++
	}
	lo := i - 40
	if lo < 0 {
		lo = 0
	}
	ha, hb := i+60, i+60
	if ha > len(a) {
		ha = len(a)
	}
	if hb > len(b) {
		hb = len(b)
	}
	return fmt.Sprintf("encoded ...%s... vs decoded ...%s...", a[lo:ha], b[lo:hb])
}
