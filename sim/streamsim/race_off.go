//go:build !race

package streamsim

const raceEnabled = false
