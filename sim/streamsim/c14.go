package streamsim

import (
	"context"
	"errors"
	"fmt"
	"sort"
	"strings"
	"sync"

	"go.opentelemetry.io/otel/metric"
	"go.opentelemetry.io/otel/metric/noop"

	colarspb "github.com/open-telemetry/otel-arrow/api/experimental/arrow/v1"
	"github.com/open-telemetry/otel-arrow/pkg/otel/arrow_record"
	carrow "github.com/open-telemetry/otel-arrow/pkg/otel/common/arrow"

	"verif/core"
)

// recMeterProvider records the deltas published on arrow_memory_inuse.
type recMeterProvider struct {
	noop.MeterProvider
	mu    sync.Mutex // instruments are safe for concurrent use, as the API requires (C16 shares one provider between consumers)
	inuse int64
	max   int64
}

type recMeter struct {
	noop.Meter
	p *recMeterProvider
}

type recUpDown struct {
	noop.Int64UpDownCounter
	p *recMeterProvider
}

func (p *recMeterProvider) Meter(string, ...metric.MeterOption) metric.Meter {
	return &recMeter{p: p}
}

func (m *recMeter) Int64UpDownCounter(name string, _ ...metric.Int64UpDownCounterOption) (metric.Int64UpDownCounter, error) {
	if name == "arrow_memory_inuse" {
		return &recUpDown{p: m.p}, nil
	}
	return noop.Int64UpDownCounter{}, nil
}

func (c *recUpDown) Add(_ context.Context, incr int64, _ ...metric.AddOption) {
	c.p.mu.Lock()
	defer c.p.mu.Unlock()
	c.p.inuse += incr
	if c.p.inuse > c.p.max {
		c.p.max = c.p.inuse
	}
}

// runMemLimit decides C14. The limit is the fault injector: the limited
// allocator refuses the first allocation that would cross L, so choosing L
// chooses which allocation fails. The walk replays the stream on a fresh
// consumer with L = 0, and whenever the first refusal of a replay reports
// (in use, requested) the next replay uses L = in use + requested - the
// smallest limit that lets exactly that allocation through - until the whole
// stream decodes; then a few larger limits and the 70 MiB default.
func (r *run) runMemLimit() {
	t := r.tape
	hp := &histPlan{inDomain: true}
	all := []string{"traces", "logs", "metrics"}
	first := t.Draw(core.Cfg, 3)
	hp.signals = []string{all[first]}
	// now and then two or three signals on one stream: a batch of another
	// signal opens fresh sub-streams, so it can be decoded although an earlier
	// batch was refused
	switch t.Weighted(core.Cfg, 3, 2, 1) {
	case 1:
		hp.signals = []string{all[first], all[(first+1)%3]}
	case 2:
		hp.signals = all
	}
	signal := strings.Join(hp.signals, "+")
	opt := defaultOptions()
	if t.Chance(core.Cfg, 1, 3) {
		opt = drawOptions(t, true)
	}
	for k, v := range opt.Features() {
		r.feats[k] = v
	}
	r.feats["signals"] = signal
	hp.nBatches = 1 + t.Weighted(core.Gen, 3, 3, 2, 2, 1, 1)
	producer := arrow_record.NewProducerWithOptions(opt.build(nil, nil)...)
	defer func() { _ = producer.Close() }()
	type enc struct {
		bar    *colarspb.BatchArrowRecords
		want   []Item
		signal string
	}
	var stream []enc
	for i := 0; i < hp.nBatches; i++ {
		g := &G{t: t, InDomain: true, MaxItems: 3}
		if len(hp.signals) > 1 {
			// batches of different weight: a small batch of another signal can
			// be decodable after a larger one was refused; larger batches have
			// buffers of more than one 64-byte allocation unit
			g.MaxItems = []int{1, 3, 3, 12, 40}[t.Draw(core.Gen, 5)]
			if g.MaxItems >= 12 {
				g.Plain = true
			}
		}
		b := &batchIn{signal: hp.signals[t.Draw(core.Gen, len(hp.signals))]}
		switch b.signal {
		case "traces":
			b.td = g.Traces()
		case "logs":
			b.ld = g.Logs()
		default:
			b.md = g.Metrics()
		}
		bar, err, pan := encode(producer, b)
		if pan != "" || err != nil {
			r.probe("stream_not_encodable")
			return
		}
		stream = append(stream, enc{bar: bar, want: b.canon(), signal: b.signal})
		r.sig.Int(int64(len(bar.ArrowPayloads)))
	}

	// replay the stream under limit L; returns the number of leading batches
	// decoded completely and the first refusal.
	// outcome: per batch 'o' decoded completely, 'm' refused with the
	// memory-limit error, 'e' rejected with another error (only after a refusal,
	// when the batch continues a sub-stream the consumer has dropped).
	type result struct {
		prefix  int
		refusal *carrow.LimitError
		outcome []byte
	}
	replay := func(L uint64) result {
		mp := &recMeterProvider{}
		c := arrow_record.NewConsumer(arrow_record.WithMemoryLimit(L), arrow_record.WithMeterProvider(mp))
		defer func() { _ = c.Close() }()
		res := result{}
		broken := false
		for i, e := range stream {
			r.batch = i
			got, _, err, pan := decode(c, e.signal, cloneBar(e.bar))
			if r.o.Render {
				r.logf("limit %d: batch %d -> err=%v panic=%v items=%d inuse=%d", L, i, err, pan != "", len(got), mp.inuse)
			}
			if pan != "" {
				after := ""
				if broken {
					after = " (a batch delivered after an earlier one had been refused)"
				}
				r.violate("C14", "no-panic", fmt.Sprintf("memory limit %d bytes, batch %d%s: consumer panicked: %s", L, i, after, pan))
				return res
			}
			if mp.inuse < 0 || mp.max < 0 || uint64(mp.inuse) > L || uint64(mp.max) > L {
				r.violate("C14", "inuse-bounded", fmt.Sprintf("memory limit %d bytes, after batch %d the consumer reports %d bytes of Arrow memory in use (peak %d)", L, i, mp.inuse, mp.max))
				return res
			}
			if broken {
				// after a refusal the stream is broken: later batches may be
				// rejected with any error, or decode if they start new IPC
				// streams - and then they must decode completely
				switch {
				case err == nil:
					if d := DiffItems(e.want, got); d != "" {
						r.violate("C14", "complete-or-limit-error", fmt.Sprintf("memory limit %d bytes, batch %d (delivered after an earlier batch had been refused) returned success but not the complete batch: %s", L, i, d))
						return res
					}
					res.outcome = append(res.outcome, 'o')
					r.probe("batch_decoded_after_a_refused_batch")
				case errors.Is(err, arrow_record.ErrConsumerMemoryLimit):
					res.outcome = append(res.outcome, 'm')
				default:
					res.outcome = append(res.outcome, 'e')
				}
				continue
			}
			if err != nil {
				if !errors.Is(err, arrow_record.ErrConsumerMemoryLimit) {
					r.violate("C14", "complete-or-limit-error", fmt.Sprintf("memory limit %d bytes, batch %d was refused with an error that is not recognisable as the memory-limit error: %v", L, i, err))
					return res
				}
				var le carrow.LimitError
				if errors.As(err, &le) {
					res.refusal = &le
				}
				r.fault("allocation_refused")
				broken = true
				res.outcome = append(res.outcome, 'm')
				continue
			}
			if d := DiffItems(e.want, got); d != "" {
				r.violate("C14", "complete-or-limit-error", fmt.Sprintf("memory limit %d bytes, batch %d returned success but not the complete batch: %s", L, i, d))
				return res
			}
			res.prefix = i + 1
			res.outcome = append(res.outcome, 'o')
		}
		return res
	}

	var L uint64
	lastPrefix := 0
	lastL := uint64(0)
	steps := 0
	var walked []uint64
	maxSteps := 250
	if r.o.Tier == "thorough" {
		maxSteps = 1500
	}
	prefixAt := map[uint64]int{}
	outcomeAt := map[uint64]string{}
	check := func(L uint64, res result) {
		if res.prefix < lastPrefix {
			r.violate("C14", "monotone", fmt.Sprintf("%d leading batches decoded under a limit of %d bytes but only %d under the larger limit of %d bytes", lastPrefix, lastL, res.prefix, L))
		}
		lastPrefix, lastL = res.prefix, L
	}
	for steps = 0; steps < maxSteps; steps++ {
		res := replay(L)
		if len(r.out.Violations) > 0 {
			break
		}
		check(L, res)
		walked = append(walked, L)
		prefixAt[L] = res.prefix
		outcomeAt[L] = string(res.outcome)
		if res.prefix == len(stream) {
			r.probe("walk_reached_full_decode")
			break
		}
		if res.refusal == nil {
			r.violate("C14", "complete-or-limit-error", fmt.Sprintf("memory limit %d bytes: refused without an extractable LimitError", L))
			break
		}
		next := res.refusal.Inuse + res.refusal.Request
		if next <= L {
			r.violate("C14", "complete-or-limit-error", fmt.Sprintf("memory limit %d bytes: refusal reports in use %d + requested %d which does not exceed the limit", L, res.refusal.Inuse, res.refusal.Request))
			break
		}
		L = next
	}
	r.out.Probes["walk_steps"] += steps
	if steps >= maxSteps {
		r.probe("walk_truncated")
	}
	if len(r.out.Violations) == 0 {
		// ... and the far end of the parameter's range: "raising the limit" has no upper bound in the
		// statement, and a limit beyond the signed 32 / 64-bit ranges is how "unlimited" gets configured
		for _, extra := range []uint64{L + 1, L + 64, 2*L + 1024, 1 << 20, 70 << 20, 1<<31 - 1, 1 << 31, 1<<32 + 1, 1<<63 - 1, 1 << 63, 1<<64 - 1} {
			if extra <= L {
				continue
			}
			res := replay(extra)
			if len(r.out.Violations) > 0 {
				break
			}
			check(extra, res)
			prefixAt[extra] = res.prefix
			outcomeAt[extra] = string(res.outcome)
		}
	}
	// The walk only visits limits of the form in-use + requested, which are
	// multiples of Arrow's 64-byte allocation granularity. A sample of the
	// limits in between (L-1, L+1, L+33) is tried as well; afterwards the
	// number of leading batches decoded must be monotone in the limit over
	// everything that was tried.
	if len(r.out.Violations) == 0 && len(walked) > 0 {
		stride := 1 + len(walked)/10
		for i := len(walked) - 1; i >= 0 && len(r.out.Violations) == 0; i-- {
			offs := []int64{-1, 1, 33}
			if (len(walked)-1-i)%stride != 0 {
				// one byte below every allocation boundary on streams where a
				// batch can be decoded after a refused one: what an interrupted
				// allocation sequence leaves behind changes exactly there
				if len(hp.signals) == 1 {
					continue
				}
				offs = offs[:1]
			}
			for _, off := range offs {
				l := int64(walked[i]) + off
				if l < 0 {
					continue
				}
				if _, done := prefixAt[uint64(l)]; done {
					continue
				}
				res := replay(uint64(l))
				if len(r.out.Violations) > 0 {
					break
				}
				prefixAt[uint64(l)] = res.prefix
				outcomeAt[uint64(l)] = string(res.outcome)
				r.probe("limits_between_allocation_boundaries")
			}
		}
		var ls []uint64
		for l := range prefixAt {
			ls = append(ls, l)
		}
		sort.Slice(ls, func(i, j int) bool { return ls[i] < ls[j] })
		for i := 1; i < len(ls) && len(r.out.Violations) == 0; i++ {
			if prefixAt[ls[i]] < prefixAt[ls[i-1]] {
				r.violate("C14", "monotone", fmt.Sprintf("%d leading batches decoded under a limit of %d bytes but only %d under the larger limit of %d bytes", prefixAt[ls[i-1]], ls[i-1], prefixAt[ls[i]], ls[i]))
			}
		}
		// the same for batches delivered after a refused one: two consumers
		// that differ only in their limit and have seen the same outcomes so
		// far - the batch the smaller limit decodes must not be refused for
		// memory by the larger one
		for i := 0; i < len(ls) && len(r.out.Violations) == 0; i++ {
			a := outcomeAt[ls[i]]
			for j := i + 1; j < len(ls) && len(r.out.Violations) == 0; j++ {
				b := outcomeAt[ls[j]]
				for k := 0; k < len(a) && k < len(b); k++ {
					if a[k] == 'o' && b[k] == 'm' && strings.IndexByte(a[:k], 'm') >= 0 {
						r.feats["class"] = "after-refusal"
						r.violate("C14", "monotone", fmt.Sprintf("batch %d, delivered after the same outcomes of the earlier batches (%s), decodes under a limit of %d bytes and is refused for memory under the larger limit of %d bytes (outcomes %s vs %s; o = decoded, m = refused for memory, e = rejected)", k, a[:k], ls[i], ls[j], a, b))
						break
					}
					if a[k] != b[k] {
						break
					}
				}
			}
		}
	}
	r.batch = steps
	r.sig.Int(int64(steps / 8))
	r.out.NonTrivial = steps >= 2
	if r.o.Render {
		r.out.Scenario = map[string]any{"property": "C14", "signal": signal, "options": opt, "batches": len(stream), "limits_walked": steps, "smallest_limit_decoding_everything": L}
	}
}
