package streamsim

import (
	"fmt"
	"math"
	"strings"

	"github.com/apache/arrow-go/v18/arrow/memory"

	"github.com/open-telemetry/otel-arrow/pkg/config"
	"github.com/open-telemetry/otel-arrow/pkg/otel/observer"

	"verif/core"
)

// OptionSet is one point of the producer option swarm, rendered for samples
// and replay files and exposed as features for known-findings predicates.
type OptionSet struct {
	Dict       string  `json:"dictionary_limit"` // default | none | uint8 | uint16 | uint32 | uint64
	Init       string  `json:"dictionary_init"`  // default | uint8 | uint16 | uint32 | uint64
	Reset      string  `json:"dict_reset_threshold"`
	ResetVal   float64 `json:"-"`
	Zstd       string  `json:"zstd"` // default | on | off
	OrderSpan  int     `json:"order_span_by"`  // -1 default
	Order16    int     `json:"order_attrs16_by"`
	Order32    int     `json:"order_attrs32_by"`
	Limit      uint64  `json:"-"`
	NoDict     bool    `json:"-"`
}

func (o OptionSet) Features() map[string]string {
	return map[string]string{"dict": o.Dict, "init": o.Init, "reset": o.Reset, "zstd": o.Zstd, "order_span": fmt.Sprint(o.OrderSpan),
		"order16": fmt.Sprint(o.Order16), "order32": fmt.Sprint(o.Order32)}
}

func defaultOptions() OptionSet {
	return OptionSet{Dict: "default", Init: "default", Reset: "default", Zstd: "default", OrderSpan: -1, Order16: -1, Order32: -1, Limit: math.MaxUint16, ResetVal: 0.3}
}

// drawOptions draws a point of the swarm. cheap biases toward small
// dictionary limits so that transitions happen within small histories.
func drawOptions(t *core.Tape, cheap bool) OptionSet { return drawOptionsX(t, cheap, false) }

// drawOptionsX: custom also allows limits that are not of the form 2^k-1, set
// through a hand-written config.Option (C16 only: "arbitrary options"; the
// limit properties are stated for the With*LimitDictIndex options, and the
// code enforces a custom limit only up to the capacity of its index width).
func drawOptionsX(t *core.Tape, cheap, custom bool) OptionSet {
	o := defaultOptions()
	var c int
	cw := 0
	if custom {
		cw = 2
	}
	if cheap {
		c = t.Weighted(core.Cfg, 2, 2, 6, 2, 1, 1, cw)
	} else {
		c = t.Weighted(core.Cfg, 3, 2, 3, 3, 2, 1, cw)
	}
	switch c {
	case 1:
		o.Dict, o.Limit, o.NoDict = "none", 0, true
	case 2:
		o.Dict, o.Limit = "uint8", math.MaxUint8
	case 3:
		o.Dict, o.Limit = "uint16", math.MaxUint16
	case 4:
		o.Dict, o.Limit = "uint32", math.MaxUint32
	case 5:
		o.Dict, o.Limit = "uint64", math.MaxUint64
	case 6:
		// config.Option is a public func(*Config) type and LimitIndexSize a public
		// field: a caller may set a limit that is not of the form 2^k-1
		o.Limit = []uint64{300, 1000}[t.Draw(core.Cfg, 2)]
		o.Dict = fmt.Sprintf("custom%d", o.Limit)
	}
	switch t.Weighted(core.Cfg, 3, 2, 1, 2, 1, 2) {
	case 1:
		o.Reset, o.ResetVal = "0", 0
	case 2:
		o.Reset, o.ResetVal = "0.001", 0.001
	case 3:
		o.Reset, o.ResetVal = "0.3", 0.3
	case 4:
		o.Reset, o.ResetVal = "1", 1
	case 5:
		o.Reset, o.ResetVal = "1e9", 1e9
	}
	if t.Chance(core.Cfg, 1, 3) {
		o.Init = []string{"uint8", "uint16", "uint32", "uint64"}[t.Draw(core.Cfg, 4)]
	}
	switch t.Draw(core.Cfg, 3) {
	case 1:
		o.Zstd = "on"
	case 2:
		o.Zstd = "off"
	}
	if t.Chance(core.Cfg, 1, 2) {
		o.OrderSpan = t.Draw(core.Cfg, 7)
	}
	if t.Chance(core.Cfg, 1, 2) {
		o.Order16 = t.Draw(core.Cfg, 4)
	}
	if t.Chance(core.Cfg, 1, 2) {
		o.Order32 = t.Draw(core.Cfg, 5)
	}
	return o
}

func (o OptionSet) build(alloc memory.Allocator, obs observer.ProducerObserver) []config.Option {
	var opts []config.Option
	switch o.Dict {
	case "none":
		opts = append(opts, config.WithNoDictionary())
	case "uint8":
		opts = append(opts, config.WithUint8LimitDictIndex())
	case "uint16":
		opts = append(opts, config.WithUint16LimitDictIndex())
	case "uint32":
		opts = append(opts, config.WithUint32LimitDictIndex())
	case "uint64":
		opts = append(opts, config.WithUint64LimitDictIndex())
	default:
		if strings.HasPrefix(o.Dict, "custom") {
			limit := o.Limit
			opts = append(opts, func(c *config.Config) { c.LimitIndexSize = limit })
		}
	}
	switch o.Init {
	case "uint8":
		opts = append(opts, config.WithUint8InitDictIndex())
	case "uint16":
		opts = append(opts, config.WithUint16InitDictIndex())
	case "uint32":
		opts = append(opts, config.WithUint32LinitDictIndex())
	case "uint64":
		opts = append(opts, config.WithUint64InitDictIndex())
	}
	if o.Reset != "default" {
		opts = append(opts, config.WithDictResetThreshold(o.ResetVal))
	}
	switch o.Zstd {
	case "on":
		opts = append(opts, config.WithZstd())
	case "off":
		opts = append(opts, config.WithNoZstd())
	}
	if o.OrderSpan >= 0 {
		opts = append(opts, config.WithOrderSpanBy(config.OrderSpanBy(o.OrderSpan)))
	}
	if o.Order16 >= 0 {
		opts = append(opts, config.WithOrderAttrs16By(config.OrderAttrs16By(o.Order16)))
	}
	if o.Order32 >= 0 {
		opts = append(opts, config.WithOrderAttrs32By(config.OrderAttrs32By(o.Order32)))
	}
	if alloc != nil {
		opts = append(opts, config.WithAllocator(alloc))
	}
	if obs != nil {
		opts = append(opts, config.WithObserver(obs))
	}
	return opts
}
