package streamsim

import (
	"errors"
	"fmt"
	"math"
	"os"
	"runtime"
	"runtime/debug"
	"sort"
	"strings"

	"github.com/apache/arrow-go/v18/arrow"
	"github.com/apache/arrow-go/v18/arrow/memory"
	"go.opentelemetry.io/collector/pdata/plog"
	"go.opentelemetry.io/collector/pdata/pmetric"
	"go.opentelemetry.io/collector/pdata/ptrace"
	"google.golang.org/protobuf/proto"

	colarspb "github.com/open-telemetry/otel-arrow/api/experimental/arrow/v1"
	"github.com/open-telemetry/otel-arrow/pkg/config"
	"github.com/open-telemetry/otel-arrow/pkg/otel/arrow_record"
	"github.com/open-telemetry/otel-arrow/pkg/record_message"

	"verif/core"
)

// Engine implements core.Engine for the OTAP stream.
type Engine struct {
	RaceLog string
	raceOff int64
}

func (e *Engine) Name() string { return "streamsim" }
func (e *Engine) Facts() map[string]string {
	return map[string]string{"toolchain": runtime.Version(), "race_build": fmt.Sprint(raceEnabled)}
}

// run is the state of one simulated run.
type run struct {
	tape         *core.Tape
	o            core.RunOpts
	out          *core.Outcome
	trace        []string
	sig          *core.Hash64
	log          *core.Hash64
	batch        int
	feats        map[string]string
	schemaEvents int
}

func (r *run) logf(format string, a ...any) {
	line := fmt.Sprintf(format, a...)
	r.log.Str(line)
	if r.o.Render && len(r.trace) < 400 {
		r.trace = append(r.trace, line)
	}
}

func (r *run) violate(prop, clause, detail string) {
	for _, v := range r.out.Violations {
		if v.Property == prop && v.Clause == clause {
			return
		}
	}
	f := map[string]string{}
	for k, v := range r.feats {
		f[k] = v
	}
	r.out.Violations = append(r.out.Violations, core.Violation{Property: prop, Clause: clause, Detail: detail, Features: f, Step: r.batch})
	r.logf("VIOLATION %s/%s at batch %d", prop, clause, r.batch)
}

func (r *run) probe(k string) { r.out.Probes[k]++ }
func (r *run) fault(k string) { r.out.Faults[k]++ }

func (e *Engine) Run(t *core.Tape, o core.RunOpts) *core.Outcome {
	out := &core.Outcome{Faults: map[string]int{}, Probes: map[string]int{}}
	r := &run{tape: t, o: o, out: out, sig: core.NewHash(), log: core.NewHash(), feats: map[string]string{}}
	func() {
		defer func() {
			if p := recover(); p != nil {
				out.Infra = fmt.Sprintf("harness panic: %v\n%s", p, debug.Stack())
			}
		}()
		switch o.Property {
		case "C01", "C02", "C03", "C04", "C12", "C13", "C15":
			r.runStream()
		case "C08":
			r.runProducerOnly()
		case "C07":
			r.runFaults()
		case "C14":
			r.runMemLimit()
		case "C16":
			r.runIndependence(e)
		default:
			out.Infra = "streamsim does not serve " + o.Property
		}
	}()
	out.Signature = r.sig.Sum()
	lh := core.NewHash().Int(int64(r.log.Sum()))
	for _, v := range out.Violations {
		lh.Str(v.Property).Str(v.Clause)
	}
	out.LogHash = lh.Sum()
	out.Steps = r.batch
	out.Trace = r.trace
	return out
}

// ---------------------------------------------------------------- observer

type obsRec struct {
	r      *run
	events []string
}

func (o *obsRec) ev(kind string) {
	o.events = append(o.events, kind)
	o.r.probe("observer_" + kind)
}
func (o *obsRec) OnNewField(recordName string, fieldPath string) { o.ev("new_field") }
func (o *obsRec) OnDictionaryUpgrade(recordName string, fieldPath string, prev, next arrow.DataType, card, total uint64) {
	o.ev("dict_upgrade_" + prev.Name() + "_to_" + next.Name())
}
func (o *obsRec) OnDictionaryOverflow(recordName string, fieldPath string, card, total uint64) {
	o.ev("dict_overflow")
}
func (o *obsRec) OnSchemaUpdate(recordName string, old, new *arrow.Schema) { o.ev("schema_update") }
func (o *obsRec) OnDictionaryReset(recordName string, fieldPath string, indexType arrow.DataType, card, total uint64) {
	o.ev("dict_reset")
}
func (o *obsRec) OnMetadataUpdate(recordName, metadataKey string)   { o.ev("metadata_update") }
func (o *obsRec) OnRecord(arrow.Record, record_message.PayloadType) {}

func (o *obsRec) take() []string {
	ev := o.events
	o.events = nil
	m := map[string]bool{}
	var ks []string
	for _, e := range ev {
		if !m[e] {
			m[e] = true
			ks = append(ks, e)
		}
	}
	sort.Strings(ks)
	return ks
}

// ---------------------------------------------------------------- helpers

var (
	tMarsh ptrace.ProtoMarshaler
	lMarsh plog.ProtoMarshaler
	mMarsh pmetric.ProtoMarshaler
)

// batchIn is one generated input batch.
type batchIn struct {
	signal string
	td     ptrace.Traces
	ld     plog.Logs
	md     pmetric.Metrics
	kind   string
	items  int
}

func (b *batchIn) canon() []Item {
	switch b.signal {
	case "traces":
		return CanonTraces(b.td)
	case "logs":
		return CanonLogs(b.ld)
	}
	return CanonMetrics(b.md)
}

// json renders the input as OTLP/JSON (for replay files), clipped.
func (b *batchIn) json() string {
	var out []byte
	switch b.signal {
	case "traces":
		out, _ = (&ptrace.JSONMarshaler{}).MarshalTraces(b.td)
	case "logs":
		out, _ = (&plog.JSONMarshaler{}).MarshalLogs(b.ld)
	default:
		out, _ = (&pmetric.JSONMarshaler{}).MarshalMetrics(b.md)
	}
	if len(out) > 6000 {
		return string(out[:6000]) + "...(clipped)"
	}
	return string(out)
}

func (b *batchIn) marshal() []byte {
	var out []byte
	switch b.signal {
	case "traces":
		out, _ = tMarsh.MarshalTraces(b.td)
	case "logs":
		out, _ = lMarsh.MarshalLogs(b.ld)
	default:
		out, _ = mMarsh.MarshalMetrics(b.md)
	}
	return out
}

func mainType(signal string) colarspb.ArrowPayloadType {
	switch signal {
	case "traces":
		return colarspb.ArrowPayloadType_SPANS
	case "logs":
		return colarspb.ArrowPayloadType_LOGS
	}
	return colarspb.ArrowPayloadType_UNIVARIATE_METRICS
}

// encode calls the producer, converting a panic into an error string.
func encode(p *arrow_record.Producer, b *batchIn) (bar *colarspb.BatchArrowRecords, err error, panicked string) {
	defer func() {
		if r := recover(); r != nil {
			panicked = fmt.Sprintf("%v\n%s", r, shortStack())
		}
	}()
	switch b.signal {
	case "traces":
		bar, err = p.BatchArrowRecordsFromTraces(b.td)
	case "logs":
		bar, err = p.BatchArrowRecordsFromLogs(b.ld)
	default:
		bar, err = p.BatchArrowRecordsFromMetrics(b.md)
	}
	return
}

// decode delivers a batch to the consumer and returns the canonical items of
// everything it returned.
func decode(c *arrow_record.Consumer, signal string, bar *colarspb.BatchArrowRecords) (items []Item, n int, err error, panicked string) {
	defer func() {
		if r := recover(); r != nil {
			panicked = fmt.Sprintf("%v\n%s", r, shortStack())
		}
	}()
	switch signal {
	case "traces":
		var out []ptrace.Traces
		out, err = c.TracesFrom(bar)
		for _, x := range out {
			items = append(items, CanonTraces(x)...)
		}
		n = len(out)
	case "logs":
		var out []plog.Logs
		out, err = c.LogsFrom(bar)
		for _, x := range out {
			items = append(items, CanonLogs(x)...)
		}
		n = len(out)
	default:
		var out []pmetric.Metrics
		out, err = c.MetricsFrom(bar)
		for _, x := range out {
			items = append(items, CanonMetrics(x)...)
		}
		n = len(out)
	}
	return
}

func shortStack() string {
	lines := strings.Split(string(debug.Stack()), "\n")
	var keep []string
	for _, l := range lines {
		if strings.Contains(l, "otel-arrow") || strings.Contains(l, "arrow-go") {
			keep = append(keep, strings.TrimSpace(l))
		}
		if len(keep) >= 12 {
			break
		}
	}
	return strings.Join(keep, "\n")
}

func cloneBar(bar *colarspb.BatchArrowRecords) *colarspb.BatchArrowRecords {
	return proto.Clone(bar).(*colarspb.BatchArrowRecords)
}

// ---------------------------------------------------------------- history plans

// plan draws the kind and size of the next batch of a history.
type histPlan struct {
	signals  []string
	nBatches int
	ramp     string // "", "small" (crosses 255), "big" (crosses 65,535)
	uniq     int
	inDomain bool
	// numRamp: the ramps of this history also feed the non-string dictionary columns (see G.NumRamp)
	numRamp, numRampDrawn bool
	bare                  bool // no attributes / events / links / exemplars anywhere
	allUniq               bool // big ramps: unique values only
	narrow                int  // G.Narrow for every batch of the history
}

func (r *run) genBatch(hp *histPlan, i int) *batchIn {
	t := r.tape
	b := &batchIn{signal: hp.signals[t.Draw(core.Gen, len(hp.signals))], kind: "normal"}
	if hp.ramp != "" && !hp.numRampDrawn {
		hp.numRampDrawn = true
		hp.numRamp = t.Chance(core.Ext, 1, 3)
		if hp.numRamp {
			r.probe("ramp_over_non_string_dictionary_columns")
		}
	}
	g := &G{t: t, InDomain: hp.inDomain, Bare: hp.bare, Narrow: hp.narrow, NumRamp: hp.numRamp}
	switch {
	case hp.ramp == "small" && t.Chance(core.Gen, 1, 4):
		// many resources and scopes with unique names / schema URLs: the
		// dictionaries of the resource- and scope-level columns cross 255
		b.kind = "ramp255wide"
		g.Plain = true
		g.Wide = true
		g.Uniq = &hp.uniq
		g.UniqPct = []int{100, 60}[t.Draw(core.Gen, 2)]
	case hp.ramp == "small" && t.Chance(core.Gen, 2, 3):
		// a few hundred items with unique strings: crosses 255 quickly
		b.kind = "ramp255"
		g.Plain = true
		g.Uniq = &hp.uniq
		g.UniqPct = []int{100, 60, 15}[t.Draw(core.Gen, 3)]
		g.MaxItems = 40 + 60*t.Draw(core.Gen, 6)
	case hp.ramp == "big" && t.Chance(core.Gen, 3, 4):
		b.kind = "ramp65535"
		g.Plain = true
		g.Uniq = &hp.uniq
		g.UniqPct = []int{100, 50, 10}[t.Draw(core.Gen, 3)]
		if hp.allUniq {
			g.UniqPct = 100
		}
		g.MaxItems = 6000 + 3000*t.Draw(core.Gen, 4)
		g.Budget = 40000
	case t.Chance(core.Gen, 1, 10):
		b.kind = "empty"
		g.MaxItems = -1
	case (r.o.Property == "C01" || r.o.Property == "C02" || r.o.Property == "C03" || r.o.Property == "C04") && t.Chance(core.Gen, 1, 600):
		// round-trip properties only: a harness that decodes the same stream
		// hundreds of times cannot afford such values
		b.kind = "long-list-or-map"
		g.Long = true
	}
	switch b.signal {
	case "traces":
		if b.kind == "empty" {
			b.td = ptrace.NewTraces()
		} else {
			b.td = g.Traces()
		}
	case "logs":
		if b.kind == "empty" {
			b.ld = plog.NewLogs()
		} else {
			b.ld = g.Logs()
		}
	default:
		if b.kind == "empty" {
			b.md = pmetric.NewMetrics()
		} else {
			b.md = g.Metrics()
		}
	}
	b.items = g.Items
	return b
}

// ---------------------------------------------------------------- C01-C04, C12, C13, C15

func (r *run) runStream() {
	t := r.tape
	prop := r.o.Property
	thorough := r.o.Tier == "thorough"
	hp := &histPlan{inDomain: true}
	if prop == "C15" && t.Chance(core.Ext, 1, 2) {
		// "never modifies the telemetry it is given" has no domain restriction: inputs the
		// round-trip properties exclude (invalid UTF-8, timestamps beyond 2^63-1, nesting deeper
		// than 16) must come back untouched too, whether they encode or are refused
		hp.inDomain = false
		r.probe("history_with_out_of_domain_inputs")
	}
	opt := defaultOptions()
	switch prop {
	case "C01":
		hp.signals = []string{"traces"}
	case "C02":
		hp.signals = []string{"logs"}
	case "C03":
		hp.signals = []string{"metrics"}
	case "C04", "C13":
		hp.signals = []string{[]string{"traces", "logs", "metrics"}[t.Draw(core.Cfg, 3)]}
		opt = drawOptions(t, !thorough || t.Chance(core.Cfg, 2, 3))
		if prop == "C04" && t.Chance(core.Ext, 1, 3) {
			// one producer / consumer pair carrying two or three signals (how an exporter uses
			// it): the attribute records the signals share evolve per signal
			all := []string{"traces", "logs", "metrics"}
			a := t.Draw(core.Ext, 3)
			hp.signals = []string{all[a], all[(a+1)%3]}
			if t.Chance(core.Ext, 1, 2) {
				hp.signals = all
			}
			r.probe("mixed_signal_stream")
		}
	case "C12", "C15":
		all := []string{"traces", "logs", "metrics"}
		switch t.Draw(core.Cfg, 3) {
		case 0:
			hp.signals = []string{all[t.Draw(core.Cfg, 3)]}
		case 1:
			a := t.Draw(core.Cfg, 3)
			hp.signals = []string{all[a], all[(a+1)%3]}
		default:
			hp.signals = all
		}
		opt = drawOptions(t, true)
	}
	hp.nBatches = 1 + t.Weighted(core.Gen, 2, 3, 3, 3, 2, 2, 1, 1, 1, 1, 1, 1)
	// cardinality ramps: per run, steer a column through a transition
	rampW := []int{60, 30, 0}
	if prop == "C04" || prop == "C13" {
		rampW = []int{30, 60, 0}
	}
	if prop == "C04" || prop == "C13" || prop == "C12" {
		// streams that cross 65,535 distinct values are expensive: one run in
		// ten at the thorough tier, about one in ninety at the quick tier
		rampW[2] = 1
		if thorough {
			rampW[2] = 10
		}
	}
	if thorough && (prop == "C01" || prop == "C02" || prop == "C03") && t.Chance(core.Gen, 1, 60) {
		rampW[2] = 30
	}
	hp.ramp = []string{"", "small", "big"}[t.Weighted(core.Gen, rampW...)]
	if hp.ramp == "big" && hp.nBatches < 6 {
		hp.nBatches = 6 + t.Draw(core.Gen, 6)
	}
	if hp.ramp == "big" && prop == "C13" {
		// the limit check wants the 16-bit limits crossed for certain: unique
		// values only, enough batches, and the explicit 16-bit option as often
		// as the default (which is the same number set another way)
		hp.allUniq = true
		if hp.nBatches < 9 {
			hp.nBatches = 9
		}
		if t.Chance(core.Cfg, 1, 2) {
			opt.Dict, opt.Limit, opt.NoDict = "uint16", math.MaxUint16, false
		}
	}
	for k, v := range opt.Features() {
		r.feats[k] = v
	}
	r.feats["signals"] = strings.Join(hp.signals, "+")

	var alloc memory.Allocator
	var checked *memory.CheckedAllocator
	if prop == "C15" {
		checked = memory.NewCheckedAllocator(memory.NewGoAllocator())
		alloc = checked
	}
	obs := &obsRec{r: r}
	var producer *arrow_record.Producer
	popts := opt.build(alloc, obs)
	if prop == "C15" && t.Chance(core.Cfg, 1, 6) {
		// the statistics options are producer options too; they print, so
		// stdout is silenced while such a producer works
		popts = append(popts, config.WithSchemaStats())
		r.feats["schema_stats"] = "on"
		if devnull, err := os.OpenFile(os.DevNull, os.O_WRONLY, 0); err == nil {
			old := os.Stdout
			os.Stdout = devnull
			defer func() { os.Stdout = old; devnull.Close() }()
		}
	}
	func() {
		defer func() {
			if p := recover(); p != nil {
				r.violate(prop, "no-panic", fmt.Sprintf("NewProducerWithOptions panicked: %v", p))
			}
		}()
		producer = arrow_record.NewProducerWithOptions(popts...)
	}()
	if producer == nil {
		return
	}
	consumer := arrow_record.NewConsumer()
	var wire *Wire
	if prop == "C12" || prop == "C13" {
		wp := "C12"
		wire = NewWire(opt.Limit, opt.NoDict, func(clause, detail string) {
			p := wp
			if clause == "dict-bound" {
				p = "C13"
			}
			r.violate(p, clause, detail)
		})
		defer wire.Close()
	}
	roundtrip := prop == "C01" || prop == "C02" || prop == "C03" || prop == "C04"
	type inFlight struct {
		bar    *colarspb.BatchArrowRecords
		want   []Item
		i      int
		signal string
		kind   string
	}
	var queue []inFlight
	lag := 0
	if roundtrip || wire != nil {
		lag = t.Weighted(core.Fault, 5, 2, 1, 1)
		if lag > 0 {
			r.fault("delivery_delayed")
		}
	}
	// the wire monitor, too, sees the messages the producer returned (not
	// copies), up to `lag` batches behind the producer
	type wireMsg struct {
		bar *colarspb.BatchArrowRecords
		mt  colarspb.ArrowPayloadType
	}
	var wireQueue []wireMsg
	deliver := func() bool {
		m := queue[0]
		queue = queue[1:]
		got, _, derr, dpan := decode(consumer, m.signal, m.bar)
		if dpan != "" {
			r.violate(prop, "no-panic", fmt.Sprintf("consumer panicked on batch %d (%s): %s", m.i, m.signal, dpan))
			return false
		}
		if derr != nil {
			if errors.Is(derr, arrow_record.ErrConsumerMemoryLimit) {
				// a healthy stream refused by the default consumer's own memory limit
				r.feats["class"] = "default-consumer-memory-limit"
			}
			r.violate(prop, "decode-ok", fmt.Sprintf("batch %d (%s) of a healthy stream (delivered %d batches behind the producer) was rejected by the consumer: %v", m.i, m.signal, lag, derr))
			return false
		}
		if d, class := DiffItemsClass(m.want, got); d != "" {
			r.feats["class"] = class
			r.violate(prop, "items-equal", fmt.Sprintf("batch %d (%s, %s; delivered %d batches behind the producer): %s", m.i, m.signal, m.kind, lag, d))
			return false
		}
		return true
	}
	var samples []map[string]any
	lastJSON := ""
	closed := false
	// C15: histories that end in an input-caused encode error (over-limit batch)
	over := ""
	overAt := -1
	if prop == "C15" && t.Chance(core.Fault, 1, 120) {
		over = overLimitKinds[t.Draw(core.Fault, len(overLimitKinds))]
		overAt = hp.nBatches - 1
		if t.Chance(core.Fault, 1, 2) {
			overAt = t.Draw(core.Fault, hp.nBatches)
		}
	}
	// every stream property: now and then an input-caused refusal early in the history (a batch
	// with more parents than the 16-bit ids allow) - the stream that follows a refused batch is
	// one more history, and the batches after it must round-trip, stay well framed and keep
	// their dictionaries bounded like any others
	if prop != "C15" && over == "" && t.Chance(core.Ext, 1, 60) {
		kinds := map[string][]string{"traces": {"spans_with_attrs", "spans_with_events", "spans_mixed_related", "resources"}, "logs": {"logs_with_attrs", "scopes"}, "metrics": {"metrics"}}[hp.signals[t.Draw(core.Ext, len(hp.signals))]]
		over = kinds[t.Draw(core.Ext, len(kinds))]
		overAt = t.Draw(core.Ext, 2)
		if overAt >= hp.nBatches {
			overAt = 0
		}
		if hp.nBatches < 3 {
			hp.nBatches += 2
		}
	}
	// C01-C03: now and then a marathon stream: every batch is small but the
	// cumulative number of id-bearing parents exceeds the 16-bit id range
	marathon := false
	if prop == "C01" || prop == "C02" || prop == "C03" {
		rate := 1500
		if thorough {
			rate = 400
		}
		if t.Chance(core.Gen, 1, rate) {
			marathon = true
			hp.nBatches = 84 // 75 dense batches of 1,000 parents: more than 65,535 in total
			r.probe("marathon_stream_over_65535_parents_in_total")
		}
	}
	// C04: now and then a stream of free-text bodies: few dictionary entries,
	// many bytes (the dictionary limit counts entries only)
	fat := false
	if (prop == "C04" && !opt.NoDict) || prop == "C02" {
		rate := 1500
		if thorough {
			rate = 500
		}
		if t.Chance(core.Gen, 1, rate) {
			fat = true
			hp.signals = []string{"logs"}
			hp.nBatches = 22
			r.feats["signals"] = "logs"
			r.feats["history"] = "free-text-bodies-40MB"
			r.probe("fat_dictionary_stream")
		}
	}
	// C01-C03: now and then the largest batch the domain allows
	boundaryAt := -1
	if prop == "C01" || prop == "C02" || prop == "C03" {
		rate := 1200
		if thorough {
			rate = 400
		}
		if t.Chance(core.Gen, 1, rate) {
			boundaryAt = t.Draw(core.Gen, hp.nBatches)
		}
	}
	auxCalls := t.Chance(core.Ext, 1, 3)
	for i := 0; i < hp.nBatches; i++ {
		r.batch = i
		var b *batchIn
		if over != "" && i == overAt {
			b = overLimitBatch(over)
			r.fault("overlimit_" + over)
			r.feats["overlimit"] = over
		} else if boundaryAt == i {
			b = boundaryBatch(hp.signals[0])
			r.probe("boundary_batch_65535_parents")
		} else if marathon && i%9 != 8 {
			b = denseBatch(hp.signals[0], 1000, i)
		} else if fat {
			b = fatBatch(1000, 2048, i)
		} else {
			b = r.genBatch(hp, i)
		}
		if auxCalls {
			// auxiliary public calls between two batches: reading (and resetting) statistics is
			// not supposed to be an event of the stream
			if t.Chance(core.Ext, 1, 3) {
				_ = producer.GetAndResetStats()
				r.probe("aux_get_and_reset_stats_between_batches")
			}
			if t.Chance(core.Ext, 1, 8) {
				_ = producer.RecordSizeStats()
				r.probe("aux_record_size_stats_between_batches")
			}
		}
		var want []Item
		if roundtrip && !(over != "" && i == overAt) { // a batch that is going to be refused is never compared
			want = b.canon()
		}
		var before []byte
		if prop == "C15" {
			before = b.marshal()
		}
		if r.o.Render {
			lastJSON = b.json()
		}
		bar, err, pan := encode(producer, b)
		evs := obs.take()
		if len(evs) > 0 && i > 0 {
			r.schemaEvents++
		}
		r.logf("batch %d: %s %s items=%d events=%v err=%v", i, b.signal, b.kind, b.items, evs, err != nil)
		r.sig.Str(b.signal).Str(b.kind).Str(strings.Join(evs, ","))
		if prop == "C15" {
			if after := b.marshal(); string(after) != string(before) {
				r.violate("C15", "input-unchanged", fmt.Sprintf("batch %d (%s): the OTLP serialisation of the input differs after encoding (%d -> %d bytes)", i, b.signal, len(before), len(after)))
			}
		}
		if pan != "" {
			r.violate(prop, "no-panic", fmt.Sprintf("producer panicked on batch %d (%s, %s): %s", i, b.signal, b.kind, pan))
			break
		}
		if err != nil {
			if prop == "C15" || (over != "" && i == overAt) {
				// an input-caused encode error: the history goes on
				r.fault("encode_error")
				continue
			}
			r.violate(prop, "encode-ok", fmt.Sprintf("in-domain batch %d (%s) was refused by the producer: %v", i, b.signal, err))
			break
		}
		if r.o.Render && len(samples) < 6 {
			var types []string
			for _, p := range bar.ArrowPayloads {
				types = append(types, fmt.Sprintf("%s#%s(%dB)", p.Type, p.SchemaId, len(p.Record)))
			}
			samples = append(samples, map[string]any{"batch": i, "signal": b.signal, "kind": b.kind, "items": b.items, "observer_events": evs, "payloads": types})
		}
		if wire != nil {
			wireQueue = append(wireQueue, wireMsg{bar, mainType(b.signal)})
			if len(wireQueue) > lag {
				wire.Observe(wireQueue[0].bar, wireQueue[0].mt)
				wireQueue = wireQueue[1:]
			}
		}
		if roundtrip {
			// The transport delivers in order but may lag: the producer runs up
			// to `lag` batches ahead of the consumer (message delay). What is
			// queued is the very message the producer returned, not a copy.
			queue = append(queue, inFlight{bar: bar, want: want, i: i, signal: b.signal, kind: b.kind})
			if len(queue) > lag {
				if !deliver() {
					break
				}
			}
		}
	}
	for wire != nil && len(wireQueue) > 0 {
		wire.Observe(wireQueue[0].bar, wireQueue[0].mt)
		wireQueue = wireQueue[1:]
	}
	for roundtrip && len(queue) > 0 && len(r.out.Violations) == 0 {
		if !deliver() {
			break
		}
	}
	func() {
		defer func() {
			if p := recover(); p != nil {
				r.violate(prop, "no-panic", fmt.Sprintf("Producer.Close panicked: %v", p))
			}
		}()
		_ = producer.Close()
		closed = true
	}()
	_ = consumer.Close()
	if checked != nil && closed {
		if n := checked.CurrentAlloc(); n != 0 {
			r.violate("C15", "balance-zero", fmt.Sprintf("after Close the producer still holds %d bytes of the caller-supplied allocator", n))
		}
	}
	if wire != nil {
		r.out.Probes["wire_new_schema_ids"] += wire.NewIDs
		r.out.Probes["wire_retired_schema_ids"] += wire.Retired
		r.out.Probes["wire_dictionary_columns_seen"] += wire.DictCols
		if wire.MaxDict > r.out.Probes["wire_max_dictionary_len"] {
			r.out.Probes["wire_max_dictionary_len"] = wire.MaxDict
		}
		for _, s := range wire.sig {
			r.sig.Str(s)
		}
	}
	r.out.NonTrivial = hp.nBatches >= 2 && r.schemaEvents > 0
	if r.o.Render {
		r.out.Scenario = map[string]any{"property": prop, "signals": hp.signals, "options": opt, "batches": hp.nBatches, "ramp": hp.ramp, "first_batches": samples, "last_input_otlp_json": lastJSON}
	}
}
