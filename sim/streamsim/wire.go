package streamsim

import (
	"bytes"
	"fmt"
	"math"

	"github.com/apache/arrow-go/v18/arrow"
	"github.com/apache/arrow-go/v18/arrow/array"
	"github.com/apache/arrow-go/v18/arrow/ipc"
	"github.com/apache/arrow-go/v18/arrow/memory"

	colarspb "github.com/open-telemetry/otel-arrow/api/experimental/arrow/v1"
)

// Wire is an independent consumer of the transport: one fresh arrow-go
// ipc.Reader per schema id, fed the payload bytes of that id in order, with
// its own bookkeeping. It knows nothing of arrow_record.Consumer.
type Wire struct {
	streams   map[string]*wireStream
	current   map[colarspb.ArrowPayloadType]string
	nextBatch int64
	viol      func(clause, detail string)
	limit     uint64
	noDict    bool

	// reach
	MaxDict      int
	DictCols     int
	NewIDs       int
	Retired      int
	Replacements int
	sig          []string
}

type wireStream struct {
	id      string
	ptype   colarspb.ArrowPayloadType
	buf     *bytes.Reader
	reader  *ipc.Reader
	retired bool
	schema  *arrow.Schema
	batches int
}

func NewWire(limit uint64, noDict bool, viol func(clause, detail string)) *Wire {
	return &Wire{streams: map[string]*wireStream{}, current: map[colarspb.ArrowPayloadType]string{}, viol: viol, limit: limit, noDict: noDict}
}

func (w *Wire) Close() {
	for _, s := range w.streams {
		if s.reader != nil {
			s.reader.Release()
		}
	}
}

func indexCapacity(t arrow.DataType) uint64 {
	switch t.ID() {
	case arrow.UINT8, arrow.INT8:
		return 1 << 8
	case arrow.UINT16, arrow.INT16:
		return 1 << 16
	case arrow.UINT32, arrow.INT32:
		return 1 << 32
	}
	return math.MaxUint64
}

// walkDicts visits every dictionary array of a column, recursively.
func walkDicts(path string, a arrow.Array, f func(path string, d *array.Dictionary)) {
	switch x := a.(type) {
	case *array.Dictionary:
		f(path, x)
	case *array.Struct:
		st := x.DataType().(*arrow.StructType)
		for i := 0; i < x.NumField(); i++ {
			walkDicts(path+"."+st.Field(i).Name, x.Field(i), f)
		}
	case *array.List:
		walkDicts(path+"[]", x.ListValues(), f)
	case *array.LargeList:
		walkDicts(path+"[]", x.ListValues(), f)
	case *array.FixedSizeList:
		walkDicts(path+"[]", x.ListValues(), f)
	case *array.Map:
		walkDicts(path+".keys", x.Keys(), f)
		walkDicts(path+".items", x.Items(), f)
	case *array.SparseUnion:
		for i := 0; i < x.NumFields(); i++ {
			walkDicts(fmt.Sprintf("%s|%d", path, i), x.Field(i), f)
		}
	case *array.DenseUnion:
		for i := 0; i < x.NumFields(); i++ {
			walkDicts(fmt.Sprintf("%s|%d", path, i), x.Field(i), f)
		}
	}
}

// Observe checks one emitted BatchArrowRecords against the framing rules
// (C12) and the dictionary bound (C13). mainType is the main payload type of
// the signal that was encoded.
func (w *Wire) Observe(bar *colarspb.BatchArrowRecords, mainType colarspb.ArrowPayloadType) {
	if bar.BatchId != w.nextBatch {
		w.viol("batch-ids", fmt.Sprintf("batch id %d, expected %d", bar.BatchId, w.nextBatch))
	}
	w.nextBatch = bar.BatchId + 1
	if len(bar.ArrowPayloads) == 0 {
		w.viol("main-first", "batch without payloads")
		return
	}
	if bar.ArrowPayloads[0].Type != mainType {
		w.viol("main-first", fmt.Sprintf("first payload is %s, the signal's main record is %s", bar.ArrowPayloads[0].Type, mainType))
	}
	seen := map[colarspb.ArrowPayloadType]bool{}
	sig := ""
	for i, p := range bar.ArrowPayloads {
		if seen[p.Type] {
			w.viol("type-once", fmt.Sprintf("payload type %s appears twice in batch %d", p.Type, bar.BatchId))
		}
		seen[p.Type] = true
		s := w.streams[p.SchemaId]
		if s == nil {
			// a new schema id: the payload type moves to it, the previous id is retired
			if old, ok := w.current[p.Type]; ok {
				w.streams[old].retired = true
				w.Retired++
			}
			s = &wireStream{id: p.SchemaId, ptype: p.Type, buf: bytes.NewReader(nil)}
			w.streams[p.SchemaId] = s
			w.current[p.Type] = p.SchemaId
			w.NewIDs++
			sig += fmt.Sprintf("+%d", p.Type)
		} else {
			if s.ptype != p.Type {
				w.viol("schema-id-function", fmt.Sprintf("schema id %q was used for payload type %s and now for %s", p.SchemaId, s.ptype, p.Type))
				continue
			}
			if s.retired {
				w.viol("schema-id-not-reused", fmt.Sprintf("schema id %q (%s) reappears in batch %d after the producer had moved that payload type to a new schema id", p.SchemaId, p.Type, bar.BatchId))
				continue
			}
		}
		s.buf.Reset(p.Record)
		func() {
			defer func() {
				if r := recover(); r != nil {
					w.viol("ipc-valid", fmt.Sprintf("independent Arrow reader panicked on schema id %q (%s), batch %d: %v", p.SchemaId, p.Type, bar.BatchId, r))
				}
			}()
			if s.reader == nil {
				rd, err := ipc.NewReader(s.buf, ipc.WithAllocator(memory.DefaultAllocator), ipc.WithDictionaryDeltas(true))
				if err != nil {
					w.viol("ipc-valid", fmt.Sprintf("schema id %q (%s), batch %d: the sub-stream does not start with a readable schema: %v", p.SchemaId, p.Type, bar.BatchId, err))
					return
				}
				s.reader = rd
				s.schema = rd.Schema()
			}
			if !s.reader.Next() {
				w.viol("ipc-valid", fmt.Sprintf("schema id %q (%s), batch %d: independent Arrow reader found no record batch: %v", p.SchemaId, p.Type, bar.BatchId, s.reader.Err()))
				return
			}
			if err := s.reader.Err(); err != nil {
				w.viol("ipc-valid", fmt.Sprintf("schema id %q (%s), batch %d: %v", p.SchemaId, p.Type, bar.BatchId, err))
				return
			}
			rec := s.reader.Record()
			s.batches++
			if !rec.Schema().Equal(s.schema) {
				w.viol("schema-id-function", fmt.Sprintf("schema id %q (%s): record schema differs from the schema the id was introduced with", p.SchemaId, p.Type))
			}
			if i > 0 && rec.NumRows() == 0 {
				w.viol("related-non-empty", fmt.Sprintf("related payload %s in batch %d has no rows", p.Type, bar.BatchId))
			}
			if s.buf.Len() != 0 {
				w.viol("ipc-valid", fmt.Sprintf("schema id %q (%s), batch %d: %d bytes left after the record batch", p.SchemaId, p.Type, bar.BatchId, s.buf.Len()))
			}
			for c := 0; c < int(rec.NumCols()); c++ {
				walkDicts(rec.ColumnName(c), rec.Column(c), func(path string, d *array.Dictionary) {
					n := d.Dictionary().Len()
					w.DictCols++
					if n > w.MaxDict {
						w.MaxDict = n
					}
					if w.noDict {
						w.viol("dict-bound", fmt.Sprintf("%s column %s is dictionary encoded (%d entries) although dictionaries are disabled", p.Type, path, n))
						return
					}
					cap := indexCapacity(d.DataType().(*arrow.DictionaryType).IndexType)
					if uint64(n) > cap {
						w.viol("dict-bound", fmt.Sprintf("%s column %s: dictionary holds %d entries, its %s index addresses %d", p.Type, path, n, d.DataType().(*arrow.DictionaryType).IndexType, cap))
					}
					if uint64(n) > w.limit {
						w.viol("dict-bound", fmt.Sprintf("%s column %s: dictionary holds %d entries, configured dictionary index limit is %d", p.Type, path, n, w.limit))
					}
				})
			}
		}()
	}
	w.sig = append(w.sig, sig)
}
