#!/bin/bash
# Re-runs the check of the property each kept seeded change (seeded/<id>/) breaks, sequentially,
# with the current machinery: bin/reeval_all.sh [id-prefix ...]. The repository suite and the
# demonstration are not re-run (SKIP_SUITE=1 SKIP_DEMO=1: they were run when the change was first
# confirmed and are recorded in meta.json). For the stream checks with large quick budgets a
# part of the budget is tried first: run i of a check is the same run whatever the budget, so a
# violation found within the first 3,000 runs is found by the full quick budget too; only if
# nothing is found the full budget is run. SKIP_IDS="id id ..." leaves changes out.
cd "$(dirname "$0")/.."
for d in seeded/*/; do
  id=$(basename "$d")
  if [ $# -gt 0 ]; then ok=0; for p in "$@"; do case "$id" in $p*) ok=1;; esac; done; [ $ok = 1 ] || continue; fi
  [ -n "$SKIP_IDS" ] && case " $SKIP_IDS " in *" $id "*) continue;; esac
  prop=$(python3 -c "
import json
m=json.load(open('$d/meta.json'))
cb=m.get('caught_by',[])
print(m['breaks_property'] if (m['breaks_property'] in cb or not cb) else cb[0])")
  echo "=== $(date +%H:%M:%S) $id $prop"
  frac=""
  case "$prop" in C01|C02|C03|C04|C08|C12|C13|C15) frac=3000;; esac
  if [ -n "$frac" ]; then
    out=$(VERIF_RUNS=$frac SKIP_SUITE=1 SKIP_DEMO=1 python3 bin/eval_mutant.py "$d" "$id" $prop 2>&1 | tail -2)
    echo "$out"
    echo "$out" | grep -q "^$prop exit 1" && continue
  fi
  SKIP_SUITE=1 SKIP_DEMO=1 python3 bin/eval_mutant.py "$d" "$id" $prop 2>&1 | tail -2
done
