#!/bin/bash
# Re-runs the checks against every kept seeded change (seeded/<id>/), sequentially, with the
# current machinery: bin/reeval_all.sh [id-prefix ...]. The repository suite is not re-run
# (SKIP_SUITE=1: it was run when the change was first confirmed and is recorded in meta.json).
cd "$(dirname "$0")/.."
for d in seeded/*/; do
  id=$(basename "$d")
  if [ $# -gt 0 ]; then ok=0; for p in "$@"; do case "$id" in $p*) ok=1;; esac; done; [ $ok = 1 ] || continue; fi
  props=$(python3 -c "
import json,sys
m=json.load(open('$d/meta.json'))
ps=[m['breaks_property']]+[p for p in m.get('caught_by',[]) if p!=m['breaks_property']]
print(' '.join(ps[:2]))")
  echo "=== $(date +%H:%M:%S) $id $props"
  SKIP_SUITE=1 SKIP_DEMO=1 python3 bin/eval_mutant.py "$d" "$id" $props 2>&1 | tail -3
done
