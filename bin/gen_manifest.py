#!/usr/bin/env python3
"""Regenerates /verif/MANIFEST.json from the table below (kept next to the driver so the
two cannot drift apart). Run after changing which properties are claimed."""
import json, os, subprocess

VERIF = os.path.dirname(os.path.dirname(os.path.abspath(__file__)))

def repo_commits():
    out = subprocess.run(["git", "-C", "/repo", "log", "--format=%h %s"], stdout=subprocess.PIPE, text=True).stdout
    return [l.split()[0] for l in out.splitlines() if l.split(" ", 1)[1].startswith("verif hooks")]

BATCH_NOTE = ("Trusted: go1.26.8 runtime and testing/synctest (fake clock, quiescence); the runtime/select.go overlay that hands the poll-order draw to the tape; "
              "placement of the verifPoint hooks (a missing hook loses interleavings, it cannot invent a violation); the simulated next consumer; the oracle code. "
              "Interleavings are explored at hook granularity; a clean batch of runs is evidence, not proof.")
STREAM_NOTE = ("Trusted: the reference model (written on pdata, shares no code with the repository's assert/ids packages); arrow-go's ipc.Reader where it is used as the "
               "independent wire monitor; go1.26.8 instead of the module's 1.24.1 toolchain. The endpoints are single-threaded and clock-free: between faults the search is over "
               "seeded histories and option sets of a two-party stateful protocol, not over schedules. A clean batch of runs is evidence, not proof.")

CHECKS = {
 "C05": ("batchsim", "exploration", "3 C05", "deterministic simulation: seeded schedules + fault injection, conservation/exactly-once oracle over the recorded history",
         "Seeded search over schedules, select orders, configurations and fault sequences of the real processor; every item carries a unique id and the canonical OTLP bytes of itself and of its resource/scope/metric, so loss, duplication, invention, content change and container-identity change are each decided exactly on every explored run, including the Shutdown drain. Exploration is the right level: the space of interleavings x configurations x request shapes is unbounded."),
 "C06": ("batchsim", "exploration", "3 C06", "deterministic simulation: seeded schedules, export failures, cancellations/deadlines at every step; per-caller outcome oracle on step-stamped history",
         "Every Consume return is compared with the outcomes of exactly the export calls that carried its items (unique error value per failing export), its position relative to those exports' returns in the scheduler's step order, and - on the faithful virtual clock - the instant its context ended."),
 "C09": ("batchsim", "exploration", "3 C09", "deterministic simulation on a virtual clock: size bounds per export, buffer invariant at quiescent points, flush deadline in virtual time",
         "Virtual time is exact (CPU steps cost nothing, the clock moves only at quiescence), so 'no later than timeout after acceptance' is decided to the nanosecond for every item, and 'as soon as the buffer reaches send_batch_size' is an invariant checked whenever the system is idle."),
 "C10": ("batchsim", "exploration", "3 C10", "deterministic simulation: racing first arrivals under a seeded scheduler; admission history checked for linearizability (porcupine) against a cardinality-limit model",
         "The scheduler explores every order of the lookup-miss / lock / store window for concurrent first arrivals; no-mixing and metadata agreement are checked on every export, refusals must be permanent and clean, and the admit/refuse history must linearize against 'a set of at most limit combinations'."),
 "C11": ("batchsim", "exploration", "3 C11", "deterministic simulation (controlled schedules: concurrency bound, drain, leak, deadlock, bounded progress) plus free-running runs of the same workloads under the race detector",
         "In-flight exports per combination are counted at every step; Shutdown's return is checked against the set of accepted items and returned exports; goroutine leaks and deadlocks are detected exactly by synctest's bubble accounting plus a virtual-time progress horizon. Data races are decided by the race detector on free-running executions (the one place where the schedule is not controlled)."),
 "C18": ("batchsim", "exploration", "3 C18", "deterministic simulation: merges of requests from distinct contexts, cancellation at every step, downstream honouring ctx; context/marker and recorded-span oracle",
         "For every export the set of contributing request contexts is known from item ids; the export context's caller marker, its cancellation, the parent and links of the recorded export span and the links added back to request spans are checked against it."),
}

def main():
    extra = os.path.join(VERIF, "sim", "streamsim", "manifest_checks.json")
    checks_tbl = dict(CHECKS)
    if os.path.exists(extra):
        for k, v in json.load(open(extra)).items():
            checks_tbl[k] = tuple(v)
    checks = []
    for pid in sorted(checks_tbl):
        eng, level, ref, tech, text = checks_tbl[pid]
        checks.append({
            "property_id": pid,
            "quick_cmd": "bin/check run %s quick" % pid,
            "thorough_cmd": "bin/check run %s thorough" % pid,
            "evidence_file": "evidence/%s.json" % pid,
            "replay_cmd_template": "bin/check replay {path}",
            "engine": eng,
            "level_claimed": {"category": level, "text": text, "design_ref": "DESIGN.md section " + ref},
            "level_note": BATCH_NOTE if eng == "batchsim" else STREAM_NOTE,
            "technique": tech,
        })
    na = [{"property_id": "C17", "reason": "pure function of (input, mode, per-instance key): the obfuscation processor has no schedule, clock, fault, I/O or second party for a simulator to control; deciding it is input generation against a structural oracle, a different family of technique (DESIGN.md section 4)"}]
    na_extra = os.path.join(VERIF, "sim", "not_applicable.json")
    if os.path.exists(na_extra):
        na += json.load(open(na_extra))
    claimed = {c["property_id"] for c in checks}
    na = [n for n in na if n["property_id"] not in claimed]
    all_ids = [json.loads(l)["id"] for l in open(os.path.join(VERIF, "properties.jsonl"))]
    for pid in all_ids:
        if pid not in claimed and pid not in {n["property_id"] for n in na}:
            na.append({"property_id": pid, "reason": "check not built yet (work in progress; see DESIGN.md)"})
    m = {
        "version": 1,
        "setup_cmd": "bin/check setup",
        "hooks": {
            "guard": "verif",
            "enable": "go1.26.8 test -c -tags verif -overlay=build/overlay.main[.stream].json in sim/<engine> (harness modules replace the repository modules by path => /repo working tree)",
            "baseline_off_cmd": "bin/check baseline-off",
            "source_commits": repo_commits(),
            "add_only": True,
        },
        "engines": [
            {"name": "batchsim", "path": "sim/batchsim", "serves_properties": sorted(p for p, v in checks_tbl.items() if v[0] == "batchsim"),
             "kind_free_text": "controlled-concurrency deterministic simulator for the batch processor: every goroutine parks at verifPoint hooks and is released one at a time by a seeded scheduler inside a testing/synctest bubble (fake clock); select order from the same tape via a runtime overlay; simulated next consumer injects latency, failures and ctx-honouring; free-running -race mode for data races"},
            {"name": "streamsim", "path": "sim/streamsim", "serves_properties": sorted(p for p, v in checks_tbl.items() if v[0] == "streamsim"),
             "kind_free_text": "the OTAP stream as two stateful nodes (real Producer and Consumer) joined by a simulated in-order transport that injects payload-level faults and allocation refusals; seeded histories and option swarm; executable reference model and independent wire monitor as oracles"},
        ],
        "checks": checks,
        "notes": "Exit codes of every command: 0 held, 1 with a VIOLATION line, 2 infrastructure trouble (never a violation). VERIF_SEED selects the seed family, VERIF_TIER overrides the tier, VERIF_RUNS overrides the run budget. KNOWN_FINDINGS.txt lists findings/fixed entries with their witnesses.",
        "not_applicable": na,
    }
    json.dump(m, open(os.path.join(VERIF, "MANIFEST.json"), "w"), indent=1)
    print("wrote MANIFEST.json with", len(checks), "checks;", len(na), "not claimed")

if __name__ == "__main__":
    main()
