#!/usr/bin/env python3
"""(Re)generates the witnesses of the `fixed:` entries of KNOWN_FINDINGS.txt.

A replay file is a choice tape, and a tape only means the same scenario as long
as the generators do not change. For every repaired defect this tool reverts
the fix commit in a scratch worktree of /repo, runs the property's check
against that worktree (VERIF_REPO), keeps the minimised replay(s) of the
expected clause as replays/<id>/fixed-<name>.json, removes the worktree, and
finally rewrites the `fixed:` lines. It never touches /repo's working tree.
"""
import glob, json, os, re, shutil, subprocess, sys

VERIF = os.path.dirname(os.path.dirname(os.path.abspath(__file__)))

# commit (subject prefix is looked up), property, clause, optional class/feature substring, witness name, runs, text
TABLE = [
    ("fix: batch processor split keeps", "C05", "container", "part=metric", "split-metric-metadata", 8000,
     "splitMetric dropped the metric's Metadata when a metric's data points were cut over two batches"),
    ("fix: batch processor split keeps", "C05", "container", "part=resource", "split-schema-url", 4000,
     "splitTraces/splitLogs/splitMetrics dropped the SchemaUrl of a resource or scope they had to cut (send_batch_max_size smaller than a request)"),
    ("fix: a Consume call that overlaps Shutdown", "C05", "exactly-once", "", "consume-overlapping-shutdown", 30000,
     "a Consume call invoked before Shutdown but enqueuing after the shard had drained its queue: with early_return it returned nil and its items were never exported"),
    ("fix: a Consume call that overlaps Shutdown", "C11", "shutdown-drains", "", "consume-overlapping-shutdown", 30000,
     "a Consume call overlapping Shutdown left accepted items unexported when Shutdown returned (and, for a new metadata combination, goroutines started after it)"),
    ("fix: the batch size is computed before", "C11", "data-race", "", "size-read-after-handover", 20000,
     "the export goroutine marshalled the request to compute its size after the next consumer had been called with it: a data race with a downstream that keeps working on the data it owns"),
    ("fix: allSameContext compares", "C18", "own-context", "", "allsamecontext-own-context", 4000,
     "allSameContext never compared the last contributor: a two-context batch was exported under a caller's context instead of the processor's own"),
    ("fix: allSameContext compares", "C18", "no-collateral", "", "allsamecontext-no-collateral", 4000,
     "allSameContext never compared the last contributor: cancelling the first caller failed the other caller's items"),
    ("fix: allSameContext compares", "C18", "links", "", "allsamecontext-links", 4000,
     "allSameContext never compared the last contributor: the export span of a two-context batch had no links to the contributing request spans"),
    ("fix: ResourceID/ScopeID are injective", "C01", "items-equal", "", "ids-not-injective", 1500,
     "ResourceID/ScopeID rendered values without type tags or escaping: spans decoded under a resource or scope that differs only in value type or embedded delimiters"),
    ("fix: ResourceID/ScopeID are injective", "C02", "items-equal", "", "ids-not-injective", 1500,
     "ResourceID/ScopeID rendered values without type tags or escaping: log records decoded under a resource or scope that differs only in value type or embedded delimiters"),
    ("fix: a list column whose first elements", "C03", "no-panic", "", "list-all-zero-elements", 1500,
     "a list column whose first elements are all zero (e.g. bucket counts [0,0,0]) made NewFieldFrom dereference a nil element field"),
    ("fix: histogram and exponential histogram keep", "C03", "items-equal", "", "histogram-present-zero", 1500,
     "a present-but-zero histogram / exponential histogram sum, min or max decoded as absent"),
    ("fix: exponential histogram bucket decoder", "C03", "no-panic", "", "ehistogram-absent-column", 1500,
     "the exponential histogram bucket decoder indexed the struct with AbsentFieldID when only one of offset / bucket_counts was sent"),
    ("fix: every attribute sort order", "C04", "items-equal", "", "attrs-order-encoding", 2000,
     "OrderAttrs16By / OrderAttrs32By other than the defaults encoded parent ids in a way the decoder does not understand: attributes decoded onto the wrong parents"),
    ("fix: a dictionary reset that cannot help", "C04", "no-panic", "", "dict-reset-loop", 2500,
     "reset threshold >= 1 with a record whose values alone exceed the index capacity: endless reset, producer panicked with 'Too many consecutive schema updates'"),
    ("fix: consumer propagates related-data errors", "C07", "no-silent-loss", "", "related-data-error-dropped", 120,
     "TracesFrom / LogsFrom ignored the error of RelatedDataFrom and returned success with no telemetry although a main record was present"),
    ("fix: span events and links require their parent_id", "C07", "no-silent-loss", "", "bare-spans-relabelled", 300,
     "the SPANS record of spans without attributes, events or links, relabelled SPAN_EVENTS or SPAN_LINKS, passed for an events/links record: success with no telemetry"),
    ("fix: the main record returned by RelatedDataFrom", "C07", "no-panic", "", "main-record-released-early", 200,
     "RelatedDataFrom released the main record it returns; a main payload delivered twice (second time under a related label) made the consumer index a freed record and panic"),
    ("fix: a payload whose type differs from the stream", "C07", "no-panic", "fault=schema_id_stale_in_batch", "stale-id-of-same-batch", 300,
     "a payload given a schema id that the producer retires in the same batch (held until then by another payload type) was fed to that stream's still registered IPC reader: dictionary deltas landed in the wrong dictionaries and the decode panicked (index out of range)"),
    ("fix: a panic while received records are converted", "C07", "no-panic", "", "panic-after-accepted-damaged-batch", 300,
     "a batch with a dropped / duplicated / emptied / diverted payload was accepted, its readers stayed out of step, and the next healthy batch panicked in unchecked dictionary indexing instead of being rejected with an error"),
    ("fix: the consumer drops its IPC readers", "C14", "no-panic", "", "readers-kept-after-failed-batch", 400,
     "after a batch failed half-way in Consume (memory limit reached inside an IPC message) the readers stayed registered out of step with the producer; the next batch panicked in dictionary indexing"),
    ("fix: a refused batch no longer leaves", "C08", "no-panic", "", "rows-left-after-refusal", 8000,
     "after a batch was refused half-way through Append, its rows stayed in the shared record builder and the next valid batch panicked with 'value is less than previous value'"),
    ("fix: batches with more parents than 16-bit", "C08", "no-panic", "", "overlimit-panic", 3000,
     "more than 65,535 groups of attributes / events / links, or more than 65,536 ids, panicked instead of returning an error"),
    ("fix: lists and maps with more than 131,072", "C01", "decode-ok", "", "long-list-or-map", 8000,
     "a span / event / link / resource / scope attribute holding a list or map of more than 131,072 elements was encoded but rejected by the consumer (CBOR library default decoding limits): the whole batch was lost"),
    ("fix: lists and maps with more than 131,072", "C02", "decode-ok", "", "long-list-or-map", 8000,
     "a log body or attribute holding a list or map of more than 131,072 elements was encoded but rejected by the consumer (CBOR library default decoding limits): the whole batch was lost"),
]

# recorded findings: property, clause, feature substring, witness file name, runs
FINDINGS = [
    ("C04", "decode-ok", "class=default-consumer-memory-limit", "finding-dictionary-bytes-vs-memory-limit.json", 12000),
    ("C02", "decode-ok", "class=default-consumer-memory-limit", "finding-dictionary-bytes-vs-memory-limit.json", 12000),
    ("C14", "monotone", "class=after-refusal", "finding-inuse-left-after-refusal.json", 800),
]

def sh(cmd, **kw):
    return subprocess.run(cmd, stdout=subprocess.PIPE, stderr=subprocess.STDOUT, text=True, **kw)

def find_commit(prefix):
    out = sh(["git", "-C", "/repo", "log", "--format=%h %s"]).stdout
    for l in out.splitlines():
        h, s = l.split(" ", 1)
        if s.startswith(prefix):
            return h
    raise SystemExit("no commit with subject prefix %r" % prefix)

def main():
    only = set(sys.argv[1:])
    lines = {}
    by_commit = {}
    for row in TABLE:
        by_commit.setdefault(row[0], []).append(row)
    only_name = os.environ.get("ONLY_NAME")  # restrict to one witness name
    for prefix, rows in by_commit.items():
        if only_name:
            rows = [r for r in rows if r[4] == only_name]
            if not rows:
                continue
        if only and not any(r[1] in only for r in rows):
            continue
        commit = find_commit(prefix)
        wt = "/tmp/regen-%s" % commit
        sh(["git", "-C", "/repo", "worktree", "remove", "--force", wt])
        r = sh(["git", "-C", "/repo", "worktree", "add", "-q", "--detach", wt, "HEAD"])
        if r.returncode:
            raise SystemExit(r.stdout)
        try:
            r = sh(["git", "-C", wt, "revert", "--no-commit", commit])
            if r.returncode:
                raise SystemExit("cannot revert %s cleanly:\n%s" % (commit, r.stdout))
            done_props = {}
            for _, prop, clause, feat, name, runs, text in rows:
                if only and prop not in only:
                    continue
                if prop not in done_props:
                    for f in glob.glob(os.path.join(VERIF, "build", "alt", "replays", prop, "[0-9]*.json")):
                        os.remove(f)
                    env = dict(os.environ, VERIF_REPO=wt, VERIF_RUNS=str(runs))
                    r = sh([os.path.join(VERIF, "bin", "check"), "run", prop, "quick"], env=env, cwd=VERIF)
                    done_props[prop] = r.stdout
                    if r.returncode != 1:
                        print(r.stdout[-3000:])
                        raise SystemExit("%s: reverting %s did not make the check fail (exit %d)" % (prop, commit, r.returncode))
                cand = []
                for f in sorted(glob.glob(os.path.join(VERIF, "build", "alt", "replays", prop, "[0-9]*.json"))):
                    d = json.load(open(f))
                    fk = ",".join("%s=%s" % kv for kv in sorted((d.get("features") or {}).items()))
                    if d["clause"] == clause and feat in fk:
                        cand.append(f)
                dest = os.path.join(VERIF, "replays", prop, "fixed-%s.json" % name)
                if not cand and ("replay=" + dest) in done_props[prop]:
                    # no fresh violation of this class was reported (another class of the same commit
                    # masks it) but the existing witness was replayed by this very run and failed
                    # again on the reverted tree: it is still a witness
                    lines[(prop, name)] = "fixed: property=%s clause=%s commit=%s witness=replays/%s/fixed-%s.json %s" % (prop, clause, commit, prop, name, text)
                    print("witness kept (still reproduces)", os.path.relpath(dest, VERIF))
                    continue
                if not cand:
                    print(done_props[prop][-2500:])
                    raise SystemExit("%s: no replay for clause %s after reverting %s" % (prop, clause, commit))
                os.makedirs(os.path.dirname(dest), exist_ok=True)
                shutil.copy(cand[0], dest)
                lines[(prop, name)] = "fixed: property=%s clause=%s commit=%s witness=replays/%s/fixed-%s.json %s" % (prop, clause, commit, prop, name, text)
                print("witness", os.path.relpath(dest, VERIF))
            for prop in done_props:
                for f in glob.glob(os.path.join(VERIF, "build", "alt", "replays", prop, "[0-9]*.json")):
                    os.remove(f)
        finally:
            sh(["git", "-C", "/repo", "worktree", "remove", "--force", wt])
            shutil.rmtree(wt, ignore_errors=True)
    # witnesses of recorded (unrepaired) findings: reproduced on the unchanged tree with the findings file ignored
    for prop, clause, feat, dest_name, runs in FINDINGS:
        if only and prop not in only:
            continue
        for f in glob.glob(os.path.join(VERIF, "replays", prop, "[0-9]*.json")):
            os.remove(f)
        env = dict(os.environ, VERIF_IGNORE_FINDINGS="1", VERIF_RUNS=str(runs))
        r = sh([os.path.join(VERIF, "bin", "check"), "run", prop, "quick"], env=env, cwd=VERIF)
        cand = []
        for f in sorted(glob.glob(os.path.join(VERIF, "replays", prop, "[0-9]*.json"))):
            d = json.load(open(f))
            fk = ",".join("%s=%s" % kv for kv in sorted((d.get("features") or {}).items()))
            if d["clause"] == clause and feat in fk:
                cand.append(f)
        if not cand:
            print(r.stdout[-2000:])
            raise SystemExit("%s: the recorded finding was not reproduced" % prop)
        shutil.copy(cand[0], os.path.join(VERIF, "replays", prop, dest_name))
        for f in glob.glob(os.path.join(VERIF, "replays", prop, "[0-9]*.json")):
            os.remove(f)
        print("finding witness", "replays/%s/%s" % (prop, dest_name))
    # rewrite KNOWN_FINDINGS.txt: keep comments, findings and untouched fixed lines
    kf = os.path.join(VERIF, "KNOWN_FINDINGS.txt")
    old = open(kf).read().splitlines()
    keep = []
    for l in old:
        m = re.match(r"^fixed: property=(\S+) .*witness=replays/\S+/fixed-([^ ]+)\.json", l)
        if m and (m.group(1), m.group(2)) in lines:
            continue
        keep.append(l)
    keep += [lines[k] for k in sorted(lines)]
    open(kf, "w").write("\n".join(keep) + "\n")
    print("KNOWN_FINDINGS.txt rewritten (%d fixed witnesses regenerated)" % len(lines))

if __name__ == "__main__":
    main()
