#!/usr/bin/env python3
"""Confirms a seeded change and runs the checks against it.

  bin/eval_mutant.py <dir with patch.diff demo_test.go notes.md> <seeded id> <prop> [<prop> ...]

In a scratch worktree of /repo (removed afterwards): the demonstration passes
on the unchanged tree, the patch applies and compiles, the demonstration fails
with it, the module's existing tests still pass with it; then every listed
check is run against the worktree (VERIF_REPO) and the outcome recorded in
/verif/seeded/<seeded id>/meta.json next to patch.diff and the demonstration.
/repo's working tree is never touched.
"""
import json, os, re, shutil, subprocess, sys, time

VERIF = os.path.dirname(os.path.dirname(os.path.abspath(__file__)))
GOENV = dict(os.environ, GOFLAGS="-mod=mod", GOPROXY="off")
GOENV.pop("GOTOOLCHAIN", None)

def sh(cmd, cwd=None, env=None, timeout=3600):
    p = subprocess.run(cmd, cwd=cwd, env=env or GOENV, stdout=subprocess.PIPE, stderr=subprocess.STDOUT, text=True, timeout=timeout)
    return p.returncode, p.stdout

def module_root(wt, pkgdir):
    d = os.path.join(wt, pkgdir)
    while not os.path.exists(os.path.join(d, "go.mod")):
        d = os.path.dirname(d)
    return d

def main():
    src, sid, props = sys.argv[1], sys.argv[2], sys.argv[3:]
    skip_suite = os.environ.get("SKIP_SUITE") == "1"
    demo = open(os.path.join(src, "demo_test.go")).read()
    m = re.search(r"place in:\s*(\S+)", demo)
    if not m:
        raise SystemExit("demo_test.go has no 'place in:' line")
    pkgdir = m.group(1).strip("`'\"")
    wt = "/tmp/eval-%s" % sid
    sh(["git", "-C", "/repo", "worktree", "remove", "--force", wt])
    shutil.rmtree(wt, ignore_errors=True)
    rc, out = sh(["git", "-C", "/repo", "worktree", "add", "-q", "--detach", wt, "HEAD"])
    if rc:
        raise SystemExit(out)
    meta = {"seeded_id": sid, "breaks_property": props[0], "checks_run": {}, "confirmed": {}}
    old_meta_path = os.path.join(VERIF, "seeded", sid, "meta.json")
    skip_demo = os.environ.get("SKIP_DEMO") == "1" and os.path.exists(old_meta_path)
    try:
        if skip_demo:
            # re-evaluation of a change that was confirmed before: only the checks are run again
            om = json.load(open(old_meta_path))
            meta["confirmed"] = om.get("confirmed", {})
            meta["breaks_property"] = om.get("breaks_property", props[0])
            for k in ("demo_output_with_change", "existing_tests_cmd"):
                if k in om:
                    meta[k] = om[k]
            rc, out = sh(["git", "-C", wt, "apply", os.path.abspath(os.path.join(src, "patch.diff"))])
            if rc:
                raise SystemExit("patch does not apply:\n" + out)
            raise StopIteration
        demo_path = os.path.join(wt, pkgdir, "zz_seeded_demo_test.go")
        open(demo_path, "w").write(demo)
        names = re.findall(r"^func (Test\w+)\(", demo, re.M)
        runre = "^(" + "|".join(names) + ")$"
        pkg = os.path.join(wt, pkgdir)
        rc, out = sh(["go", "test", "-count=1", "-vet=off", "-run", runre, "."], cwd=pkg, timeout=1200)
        meta["confirmed"]["demo_passes_without_change"] = rc == 0
        if rc != 0:
            print(out[-3000:])
        rc, out = sh(["git", "-C", wt, "apply", os.path.abspath(os.path.join(src, "patch.diff"))])
        if rc:
            raise SystemExit("patch does not apply:\n" + out)
        modroot = module_root(wt, pkgdir)
        rc, out = sh(["go", "build", "./..."], cwd=modroot)
        meta["confirmed"]["compiles"] = rc == 0
        if rc:
            print(out[-3000:])
        rc, out = sh(["go", "test", "-count=1", "-vet=off", "-run", runre, "."], cwd=pkg, timeout=1200)
        meta["confirmed"]["demo_fails_with_change"] = rc != 0
        meta["demo_output_with_change"] = out[-1500:]
        os.remove(demo_path)
        if skip_suite:
            meta["confirmed"]["existing_tests_pass_with_change"] = "not re-run (SKIP_SUITE)"
        else:
            t0 = time.time()
            target = ["./..."] if "concurrentbatchprocessor" in modroot or "obfuscation" in modroot else ["./pkg/otel/...", "./pkg/arrow/...", "./pkg/config/..."]
            rc, out = sh(["go", "test", "-count=1", "-vet=off", "-timeout", "25m"] + target, cwd=modroot, timeout=2400)
            meta["confirmed"]["existing_tests_pass_with_change"] = rc == 0
            meta["existing_tests_cmd"] = "cd %s && go test -count=1 -vet=off %s (%.0f s)" % (os.path.relpath(modroot, wt), " ".join(target), time.time() - t0)
            if rc:
                print(out[-3000:])
    except StopIteration:
        pass
    except BaseException:
        sh(["git", "-C", "/repo", "worktree", "remove", "--force", wt])
        shutil.rmtree(wt, ignore_errors=True)
        raise
    try:
        for prop in props:
            env = dict(os.environ, VERIF_REPO=wt)
            t0 = time.time()
            rc, out = sh([os.path.join(VERIF, "bin", "check"), "run", prop, os.environ.get("EVAL_TIER", "quick")], cwd=VERIF, env=env, timeout=7200)
            viol = [l for l in out.splitlines() if l.startswith("violation:") or l.startswith("VIOLATION") or l.startswith("INFRA")]
            meta["checks_run"][prop] = {"cmd": "VERIF_REPO=<worktree with the change> bin/check run %s %s" % (prop, os.environ.get("EVAL_TIER", "quick")),
                                        "exit": rc, "caught": rc == 1, "wall_s": round(time.time() - t0), "lines": viol[:8]}
            print(prop, "exit", rc, viol[:4])
    finally:
        sh(["git", "-C", "/repo", "worktree", "remove", "--force", wt])
        shutil.rmtree(wt, ignore_errors=True)
    dest = os.path.join(VERIF, "seeded", sid)
    os.makedirs(dest, exist_ok=True)
    same = os.path.abspath(src) == os.path.abspath(dest)
    if not same:
        shutil.copy(os.path.join(src, "patch.diff"), os.path.join(dest, "patch.diff"))
        shutil.copy(os.path.join(src, "demo_test.go"), os.path.join(dest, "demo_test.go"))
    if os.path.exists(os.path.join(src, "notes.md")):
        if not same:
            shutil.copy(os.path.join(src, "notes.md"), os.path.join(dest, "notes.md"))
        meta["needs_in_order_to_manifest"] = "see notes.md (written by the independent sub-agent that produced the change)"
    if os.path.exists(old_meta_path):
        om = json.load(open(old_meta_path))
        for k in ("needs_in_order_to_manifest", "what_was_run"):
            if k in om and len(str(om[k])) > 100:
                meta[k] = om[k]
    old = {}
    mp = os.path.join(dest, "meta.json")
    if os.path.exists(mp):
        old = json.load(open(mp))
        for k, v in old.get("checks_run", {}).items():
            meta["checks_run"].setdefault(k, v)
        if skip_suite and old.get("confirmed", {}).get("existing_tests_pass_with_change") is True:
            meta["confirmed"]["existing_tests_pass_with_change"] = True
            meta["existing_tests_cmd"] = old.get("existing_tests_cmd", "") + " (from an earlier evaluation of this change)"
        if "verdict" in old:
            meta["verdict"] = old["verdict"]
    meta["caught_by"] = sorted(p for p, v in meta["checks_run"].items() if v["caught"])
    json.dump(meta, open(mp, "w"), indent=1)
    print(json.dumps({"id": sid, "confirmed": meta["confirmed"], "caught_by": meta["caught_by"]}))

if __name__ == "__main__":
    main()
