#!/usr/bin/env python3
"""Fills seeded/*/meta.json with what the change needs in order to manifest (from the
sub-agent's notes.md) and with what was run; idempotent."""
import glob, json, os, re

VERIF = os.path.dirname(os.path.dirname(os.path.abspath(__file__)))

def needs(notes):
    lines = notes.splitlines()
    out, on = [], False
    for l in lines:
        if l.startswith("#"):
            if on:
                break
            if re.search(r"need|manifest|trigger", l, re.I) and not re.search(r"^#\s*C\d\d", l):
                on = True
                out.append(l)
            continue
        if on:
            out.append(l)
    txt = re.sub(r"\s+", " ", " ".join(out)).strip()
    if not txt:
        for l in lines:
            if re.search(r"needs|manifest|trigger", l, re.I) and len(l) > 60:
                txt = re.sub(r"\s+", " ", l).strip()
                break
    return txt[:1500]

for mp in sorted(glob.glob(os.path.join(VERIF, "seeded", "*", "meta.json"))):
    m = json.load(open(mp))
    d = os.path.dirname(mp)
    np = os.path.join(d, "notes.md")
    if os.path.exists(np):
        n = needs(open(np).read())
        if n:
            m["needs_in_order_to_manifest"] = n
    m["what_was_run"] = {
        "confirmation": "in a scratch worktree of /repo HEAD: demonstration passes without the change, patch applies and compiles, demonstration fails with it, existing tests of the module pass with it (bin/eval_mutant.py)",
        "checks": "each listed check with VERIF_REPO=<scratch worktree with the change> bin/check run <id> quick",
    }
    json.dump(m, open(mp, "w"), indent=1)
print("ok")
