#!/usr/bin/env python3
"""Prints the markdown table of seeded changes (DESIGN.md section 11.4) from seeded/*/meta.json."""
import glob, json, os, re

VERIF = os.path.dirname(os.path.dirname(os.path.abspath(__file__)))

def first_sentence(path):
    try:
        txt = open(path).read()
    except OSError:
        return ""
    for line in txt.splitlines():
        line = line.strip()
        if line and not line.startswith("#") and not line.startswith("```") and len(line) > 40:
            return re.sub(r"\s+", " ", line)[:220]
    return ""

rows = []
for mp in sorted(glob.glob(os.path.join(VERIF, "seeded", "*", "meta.json"))):
    m = json.load(open(mp))
    d = os.path.dirname(mp)
    files = sorted(set(re.findall(r"^\+\+\+ b/(\S+)", open(os.path.join(d, "patch.diff")).read(), re.M)))
    ok = m.get("confirmed", {})
    confirmed = all(v is True or isinstance(v, str) for v in ok.values()) and ok.get("demo_fails_with_change") is True
    caught = m.get("caught_by", [])
    checks = ", ".join("%s:%s" % (p, "caught" if v["caught"] else ("exit %s" % v["exit"])) for p, v in sorted(m.get("checks_run", {}).items()))
    note = m.get("verdict", "")
    if m.get("applies_to"):
        note = (note + " " if note else "") + "applies to " + m["applies_to"]
    rows.append((m["seeded_id"], m["breaks_property"], ", ".join(os.path.basename(f) for f in files), "yes" if confirmed else "NO", checks, note))
print("| seeded id | breaks | file(s) | confirmed | checks run (quick tier) | note |")
print("|---|---|---|---|---|---|")
for r in rows:
    print("| " + " | ".join(r) + " |")
n = len(rows)
c = sum(1 for r in rows if "caught" in r[4])
print("\n%d seeded changes, %d caught by at least one check at the quick tier." % (n, c))
