#!/bin/bash
# Runs every claimed check at one tier, one after the other, from /verif against /repo:
#   bin/run_all.sh quick|thorough [id ...]
# Prints one summary line per property; the full output goes to build/all-<tier>.log.
cd "$(dirname "$0")/.."
tier=${1:-quick}; shift
ids=${*:-C01 C02 C03 C04 C05 C06 C07 C08 C09 C10 C11 C12 C13 C14 C15 C16 C18}
mkdir -p build
log=build/all-$tier.log
: > "$log"
rc_all=0
for p in $ids; do
  t0=$(date +%s)
  bin/check run "$p" "$tier" >> "$log" 2>&1
  rc=$?
  [ $rc -ne 0 ] && rc_all=$rc
  echo "$(date +%H:%M:%S) $p $tier exit=$rc $(( $(date +%s) - t0 )) s"
done
exit $rc_all
